#!/bin/bash
export VERIF_EVIDENCE_DIR=/verif/.work/evidence-seeds; mkdir -p $VERIF_EVIDENCE_DIR
# regression over all seeded changes: each must be reported (exit 1) by the check recorded in its meta.json; the tree is restored after each
cd /verif
out=${1:-/verif/.work/seedall.log}; : > $out
for d in seeded/*/; do
  id=$(python3 -c "import json,re,sys; m=json.load(open('$d/meta.json')); print(re.findall(r'C\d\d', str(m.get('caught_by',{}).get('check','')))[0])")
  cd /repo && git apply /verif/$d/patch.diff || { echo "$(basename $d) PATCH DOES NOT APPLY" >> $out; cd /verif; continue; }
  cd /verif && timeout 2400 ./vcheck $id > .work/seedall-cur.log 2>&1; rc=$?
  git -C /repo checkout -- .
  echo "$(basename $d) $id exit=$rc violations=$(grep -c '^VIOLATION' .work/seedall-cur.log) machinery=$(grep -c '^MACHINERY' .work/seedall-cur.log)" >> $out
done
echo DONE >> $out
