#!/bin/bash
export VERIF_EVIDENCE_DIR=/verif/.work/evidence-seeds; mkdir -p $VERIF_EVIDENCE_DIR
# usage: seedrun.sh <seed dir> <property id> [more ids]  -- applies the patch to /repo, runs the checks, undoes it
d=$(realpath $1); shift
cd /repo && git apply "$d/patch.diff" || { echo "patch does not apply"; exit 3; }
for p in "$@"; do
  cd /verif && timeout 1700 ./vcheck $p > /tmp/seedrun-$p.log 2>&1; rc=$?
  echo "== $(basename $d) $p exit=$rc"; grep -E "^VIOLATION|^  role|^INCONCLUSIVE|^MACHINERY" /tmp/seedrun-$p.log | cut -c1-260 | head -8
done
git -C /repo checkout -- . ; git -C /repo status --short | head -3
