"""Translation validation of the x86-64 JIT, per eBPF instruction: the bytes the real JIT emitted for one instruction are
executed symbolically (x86sym) from an arbitrary machine state and compared, under the register map, with the
interpreter's step extracted from MIR (mirsym) for the same instruction.  Used by C03, C07, C08, C18."""
import traceback, json
from z3 import (BitVec, BitVecVal, BoolVal, And, Or, Not, If, Implies, ULT, ULE, UGT, UGE, URem, Extract, ZeroExt, SignExt, Select, simplify,
                is_true, is_false, Array, BitVecSort)
import common, mirsym, interp, spec, obl, x86sym, ref, icheck
from obl import mval
from driver import Driver
from x86sym import EBPF_MAP, REGS

# every eBPF register occurs as destination/base and as source at least once (x86: rax rdi rsi rdx r9 r8 rbx r13 r14 r15 rbp - REX.B/REX.R classes, rbp/r13 bases)
QUICK_PAIRS = [(0, 1), (3, 4), (4, 3), (7, 6), (6, 7), (2, 2), (9, 5), (1, 10), (8, 9), (5, 8)]
ALL_PAIRS = [(d, s) for d in range(10) for s in range(11)]
# registers with an implicit role in x86 (r0 = rax, r3 = rdx: operands of mul/div): every aliasing pattern dst/src over {r0, r3, other}
SPECIAL_PAIRS = [(0, 0), (0, 3), (3, 0), (3, 3), (5, 0), (5, 3)]
IMM_QUICK = [0, 1, -1, 200, 0x7fffffff, -0x80000000]
IMM_FULL = [0, 1, -1, 2, 31, 32, 33, 63, 64, 127, 128, -128, -129, 255, 256, 0xffff, 0x10000, 0x7fffffff, -0x80000000, -0x7fffffff, 0x12345678]
OFF_QUICK = [0, -8, 127, 128, -129, 32767]
OFF_FULL = [0, 1, -1, 8, -8, 127, 128, -128, -129, 255, 32767, -32768]
JOFF = [0, 3]      # forward jump distances used in the per-instruction family (other shapes: control-flow family)


def combos(pairs, vals, full):
    """full: every pair x every value; quick: every pair with one value (rotating) + every value with the first pairs"""
    if full: return [(p, v) for p in pairs for v in vals]
    out = [(p, vals[i % len(vals)]) for i, p in enumerate(pairs)]
    out += [(pairs[i % 2], v) for i, v in enumerate(vals)]
    return out


def instances(tier):
    """(opc, dst, src, off, imm, next_imm) for family F1, derived from the opcode classification"""
    full = tier != 'quick'
    pairs = ALL_PAIRS if full else QUICK_PAIRS
    imms = IMM_FULL if full else IMM_QUICK
    offs = OFF_FULL if full else OFF_QUICK
    out = []
    for opc in spec.VERIFIER_OK:
        k, i = spec.classify(opc)
        if k in ('exit',): continue
        store_cls = (opc & 7) in (spec.CLS_ST, spec.CLS_STX)
        def fix(p):
            d, s = p
            return (10 if (store_cls and d == 1) else d), s        # r10 as store base
        if k == 'call':
            for key in (0, 1, 0x7fffffff, 0x80000000, 0xffffffff): out.append((opc, 0, 0, 0, key, 0))
        elif k == 'alu':
            if i['x'] or i['op'] == 'neg':
                for p in (pairs if full or not i['x'] else pairs + SPECIAL_PAIRS): d, s = fix(p); out.append((opc, d, s if i['x'] else 0, 0, 0, 0))
            else:
                for p, im in combos(pairs, imms, full): d, s = fix(p); out.append((opc, d, 0, 0, im, 0))
        elif k == 'endian':
            for p, wd in combos(pairs, [16, 32, 64], True): d, s = fix(p); out.append((opc, d, 0, 0, wd, 0))
        elif k == 'lddw':
            vals = [0, 1, 0x7fffffff, 0x80000000, 0xffffffff, 0x123456789abcdef0, 0xffffffffffffffff, 0xffffffff80000000]
            for p, v in combos(pairs, vals, full): d, s = fix(p); out.append((opc, d, 0, 0, v & 0xffffffff, v >> 32))
        elif k == 'ja':
            for o in JOFF: out.append((opc, 0, 0, o, 0, 0))
        elif k == 'jcond':
            for o in JOFF:
                if i['x']:
                    for p in pairs: d, s = fix(p); out.append((opc, d, s, o, 0, 0))
                else:
                    for p, im in combos(pairs, imms, full): d, s = fix(p); out.append((opc, d, 0, o, im, 0))
        elif k == 'ldabs':
            for im in (0, 1, 127, 128, 0x7fffffff): out.append((opc, 0, 0, 0, im, 0))
        elif k == 'ldind':
            for p, im in combos(pairs, [0, 1, 127, 128, 0x7fffffff], full): d, s = fix(p); out.append((opc, 0, s, 0, im, 0))
        elif k in ('ldx', 'stx', 'xadd'):
            for p, o in combos(pairs, offs, full): d, s = fix(p); out.append((opc, d, s, o, 0, 0))
        elif k == 'st':
            for p, o in combos(pairs, offs, full):
                d, s = fix(p)
                for im in (imms[:3] + imms[-2:] if full else [imms[(o + d) % len(imms)]]): out.append((opc, d, 0, o, im, 0))
    seen = set(); res = []
    for x in out:
        if x not in seen: seen.add(x); res.append(x)
    return res


def build_program(inst, at=0):
    """program holding the instruction at index `at`, followed by enough filler for its jump and a final exit"""
    opc, d, s, off, imm, nimm = inst
    k = spec.classify(opc)[0]
    pre = [ref.insn(0xbf, 0, 0)] * at                 # mov64 r0, r0
    body = [ref.insn(opc, d, s, off, imm)]
    if k == 'lddw': body.append(ref.insn(0, 0, 0, 0, nimm))
    tail = [ref.insn(0xbf, 0, 0)] * (max(off, 0) + 1) + [ref.insn(0x95)]
    return b''.join(pre + body + tail)


class Ctx:
    """per-worker context: MIR model of the interpreter + native driver"""
    def __init__(self, timeout_ms, profile='release'):
        mir, key = common.load_mir('std'); tt = common.type_table()
        self.I = interp.Interp(mir, tt, nranges=0, overflow_panics=False, timeout_ms=timeout_ms)
        self.drv = Driver.get('dev')
        self.pr = obl.Prover(timeout_ms, common.seed())
        self.timeout_ms = timeout_ms
        self.compiled = 0


def compile_jit(ctx, prog, vm='mbuff', helpers=()):
    r = ctx.drv.request(dict(op='compile', vm=vm, prog=prog.hex(), engine='jit', helpers=[list(h) for h in helpers]))
    ctx.compiled += 1
    return r


def check_instance(ctx, inst, props=('C03',), helper_kind='h1'):
    """returns list of candidate dicts"""
    opc, d, s, off, imm, nimm = inst
    k, info = spec.classify(opc); name = spec.opname(opc); pr = ctx.pr
    at = 1
    prog = build_program(inst, at)
    helpers = [(imm & 0xffffffff, helper_kind)] if k == 'call' else []
    r = compile_jit(ctx, prog, helpers=helpers)
    cands = []
    tag = f'dst={d},src={s},off={off},imm={imm}' + (f',hi={nimm}' if k == 'lddw' else '')
    if r.get('status') != 'ok':
        # a native observation: the verifier accepted the program, every helper it calls is registered, the interpreter runs it - the JIT refuses or crashes
        cands.append(dict(role=f'jit/{name}/compile-refused', detail=f'jit_compile fails on a verifier-accepted program [{tag}] whose helpers are registered: {r.get("status")} {str(r.get("msg"))[:160]}', model=None, inst=list(inst), prog=prog.hex(), friendly=True))
        return cands
    code = bytes.fromhex(r['code']); locs = r['pc_locs']
    nslots = len(prog) // 8
    seg_start = locs[at]; nxt_idx = at + (2 if k == 'lddw' else 1)
    X = x86sym.X86(code, ctx.timeout_ms)
    S = ctx.I.S
    X.hcall = S.hcall
    st = x86sym.fresh_state(mem=S.M0); X.rsp0 = st.r['rsp']
    st.ip = seg_start
    regs = [st.r[m] for m in EBPF_MAP]
    stop = set(l for j, l in enumerate(locs[:nslots]) if j != at and not (k == 'lddw' and j == at + 1))
    try:
        if seg_start in stop: xs = [st]          # nothing was emitted for this instruction: the segment is empty
        else: xs = X.run(st, stop)
    except x86sym.Undecodable as e:
        pr.out['errors'].append(f'{name} [{tag}]: x86 decoder: {e}')
        return cands
    # interpreter side: same instruction, same register values, same memory, packet base = the JIT's mem register
    fields = dict(regbyte=(s << 4) | d, off=off & 0xffff, imm=imm & 0xffffffff, next_imm=nimm & 0xffffffff, nopc=0 if k == 'lddw' else 0xbf)
    ist, P = ctx.I.make_pre(opc, fields=fields, regs=regs, pc=at)
    pre_x = dict(st0_regs=dict((rg, BitVec(f'x_{rg}', 64)) for rg in REGS))
    X0 = pre_x['st0_regs']
    assume = [P.mem_base == X0['r10'], P.prog_len == len(prog), P.sfi == 0, UGE(X0['rsp'], 1 << 16), ULE(X0['rsp'], 1 << 63)]
    if k == 'call': assume.append(S.helper(BitVecVal(imm & 0xffffffff, 32)) == int(r['helper_addrs'][0][1]))
    # native stack scratch area below RSP is disjoint from every eBPF-visible region (in-bounds accesses only: C03's premise)
    rsp0 = X0['rsp']
    ist.pc += [simplify(c) for c in assume]
    try:
        ips = ctx.I.step_paths(ist)
    except mirsym.Unsupported as e:
        pr.out['errors'].append(f'{name} [{tag}]: MIR: {e}'); return cands
    conts = [p for p in ips if p.kind == 'cut']
    neg_unsigned = k == 'jcond' and not info['x'] and info['w'] == 64 and info['op'] in ('jeq', 'jne', 'jgt', 'jge', 'jlt', 'jle') and imm < 0
    def cand(aspect, detail, m, extra=None):
        if neg_unsigned and aspect == 'next-pc': aspect += ':negative-imm-in-unsigned-64bit-compare'
        md = icheck.model_dict(m, P, extra) if m is not None else None
        if md is not None: md['x86'] = {rg: mval(m, X0[rg]) for rg in REGS}
        cands.append(dict(role=f'jit/{name}/{aspect}', detail=f'{detail} [{tag}]', inst=list(inst), model=md, friendly=True, prog=prog.hex()))
    if not conts and k in ('ldx', 'st', 'stx', 'xadd') and (s if k == 'ldx' else d) == 10 and off + info['size'] > 0:
        # an access based on r10 that reaches past the top of the stack is refused for every state: outside C03's premise (all accesses in bounds)
        pr.out['outside_premise'] = pr.out.get('outside_premise', 0) + 1; return cands
    if not conts and k != 'tail_call':
        pr.out['errors'].append(f'{name} [{tag}]: interpreter has no continuing path (vacuous)'); return cands
    a_sym = BitVec('a_any', 64); vdone = []
    for ip_ in conts:
        Q = ctx.I.post(ip_); icond = list(ip_.st.pc)
        qpc = simplify(Q.pc)
        if not hasattr(qpc, 'as_long'):
            pr.out['errors'].append(f'{name} [{tag}]: interpreter next pc not concrete'); continue
        want_ip = locs[qpc.as_long()] if qpc.as_long() < len(locs) else None
        # premise of C03: all accesses in bounds of packet / metadata / stack, and those regions are away from the native scratch
        data = [e for e in Q.log if e[0] in icheck.DATA_KINDS]
        prem = []
        for (_, addr, n) in data: prem.append(Or(ULE(addr + n, rsp0 - 8192), UGE(addr, rsp0 + 4096)))
        covered = []
        for xs_ in xs:
            xc = xs_.pc
            both = icond + xc + prem
            r0, _ = pr.check(both, [])
            if r0 == 'unsat': continue
            if r0 == 'unknown': pr.out['inconclusive'].append(f'{name} [{tag}]: path pairing'); continue
            covered.append(And(*xc) if xc else BoolVal(True))
            for (oname, cnd, ipx) in xs_.obligations:
                rr, m = pr.prove(f'{name}:{oname} [{tag}]', both, cnd)
                if rr == 'sat': cand(oname, f'x86 {oname} violated at code offset {ipx:#x}', m)
            # where does the code go?
            pr.out['obligations'] += 1
            if isinstance(xs_.ip, tuple) or xs_.ip != want_ip:
                rr, m = pr.check(both, [])
                cand('next-pc', f'interpreter continues at pc {qpc} (code offset {want_ip}), generated code goes to {xs_.ip}', m if rr == 'sat' else None, dict(got=BitVecVal(0, 64), want=Q.pc))
                continue
            pr.out['discharged'] += 1
            skip = set()
            if k == 'call': skip = {1, 2, 3, 4, 5}        # r1-r5 after a helper call are outside the claim
            for j in range(11):
                if j in skip: continue
                rr, m = pr.prove(f'{name}:r{j} [{tag}]', both, xs_.r[EBPF_MAP[j]] == Q.regs[j], sample=f'{name} [{tag}]: x86 {EBPF_MAP[j]}\' = interpreter r{j}\' for all register and memory contents' if j == d else None)
                if rr == 'sat': cand('reg-value', f'r{j} ({EBPF_MAP[j]}) differs from the interpreter', m, dict(got=xs_.r[EBPF_MAP[j]], want=Q.regs[j], reg=BitVecVal(j, 8)))
            if k in ('alu', 'endian', 'lddw') and not vdone and d != 10 and not (info.get('x') and s == 10):      # r10 holds a native address: not reproducible
                vdone.append(1); validate_instance(ctx, inst, both, P, X0, Q.regs[d], xs_.r[EBPF_MAP[d]], d, name, tag)
            for rg, what in (('rsp', 'native stack pointer'), ('r10', 'packet pointer register'), ('r12', 'callee-saved r12')):
                rr, m = pr.prove(f'{name}:{rg}-preserved [{tag}]', both, xs_.r[rg] == X0[rg])
                if rr == 'sat': cand(f'{rg}-not-preserved', f'{what} changed by the generated code', m)
            # memory: equal everywhere except the native scratch area below RSP
            outside = Or(ULT(a_sym, rsp0 - 128), UGE(a_sym, rsp0))
            rr, m = pr.prove(f'{name}:memory [{tag}]', both + [outside], Select(xs_.mem.arr, a_sym) == Select(Q.M, a_sym), sample=f'{name} [{tag}]: memory after = interpreter memory after (every address outside the native scratch area)' if data else None)
            if rr == 'sat': cand('mem-value', 'memory differs from the interpreter after the instruction', m, dict(addr=a_sym))
            if k == 'call':
                hx = [e for e in xs_.events if e[0] == 'hcall']; hi = [e for e in Q.events if e[0] == 'hcall']
                pr.out['obligations'] += 1
                if len(hx) != 1 or len(hi) != 1: cand('helper-call-count', f'{len(hx)} native helper calls vs {len(hi)} in the interpreter', None)
                else:
                    pr.out['discharged'] += 1
                    tgt, args, rsp_at = hx[0][1], hx[0][2], hx[0][3]
                    rr, m = pr.prove(f'{name}:helper-target [{tag}]', both, tgt == S.helper(BitVecVal(imm & 0xffffffff, 32)))
                    if rr == 'sat': cand('helper-target', 'call goes to another address than the registered helper', m)
                    for j in range(5):
                        rr, m = pr.prove(f'{name}:helper-arg{j+1} [{tag}]', both, args[j] == hi[0][2][j], sample=f'{name}: SysV argument {j+1} = r{j+1}' if j == 3 else None)
                        if rr == 'sat': cand('helper-args', f'argument {j+1} differs from r{j+1}', m)
                    if 'C08' in props:
                        rr, m = pr.prove(f'{name}:stack-aligned-at-call [{tag}]', both + [URem(rsp0, 16) == 8], URem(rsp_at, 16) == 0)
                        if rr == 'sat': cand('helper-call-stack-misaligned:top-level', 'RSP is not 16-byte aligned at the call instruction (top-level code: RSP = 8 mod 16 at instruction boundaries)', m)
        # every interpreter behaviour must be matched by some generated-code path
        if covered:
            rr, m = pr.prove(f'{name}:coverage [{tag}]', icond + prem, Or(*covered))
            if rr == 'sat': cand('missing-path', 'the generated code has no path for an input on which the interpreter continues', m)
        else:
            rr, m = pr.check(icond + prem, [])
            if rr == 'sat': cand('missing-path', 'no generated-code path is compatible with the interpreter path', m)
    pr.out['programs'] += 1
    return cands


def validate_instance(ctx, inst, both, P, X0, t_interp, t_x86, d, name, tag):
    """encoder validation (never a deciding step): one satisfying pre-state is taken from the solver, the value both models predict for the
    destination register is read off, and a program that sets up that pre-state, runs the instruction and returns the register is run natively
    under the interpreter and the JIT; a native value different from the prediction means mirsym/x86sym or a semantics table is wrong (exit 2)"""
    import replaylib
    pr = ctx.pr; v = pr.out.setdefault('validation', dict(instances=0, agree=0, skipped=0))
    r, m = pr.check(both, [])
    if r != 'sat': v['skipped'] += 1; return
    md = icheck.model_dict(m, P, dict(reg=BitVecVal(d, 8)))
    md = dict(md); md['pc'] = max(md.get('pc', 0), 40); md['prog_len'] = 8 * (md['pc'] + 8); md['sfi'] = 0
    md.update(mem_base=1 << 62, mbuff_base=(1 << 62) + (1 << 40), stack_base=(1 << 62) + (2 << 40), ranges=[], mem_len=16, mbuff_len=16, mem_bytes=[0] * 16, mbuff_bytes=[0] * 16)
    try: b, why = replaylib.build_interp_program(md, observe_reg=d, land=None)
    except Exception as e: b, why = None, str(e)
    if b is None: v['skipped'] += 1; return
    want = dict(interp=mval(m, t_interp), jit=mval(m, t_x86)); v['instances'] += 1; ok = True
    for eng in ('interp', 'jit'):
        nat = ctx.drv.run(b['prog'], vm='mbuff', mem=b['mem'], mbuff=b['mbuff'], extra=b['extra'], engine=eng, helpers=[], allowed=b['allowed'], patch=b['patch'])
        if nat.get('status') != 'ok' or nat.get('value') != want[eng]:
            ok = False; pr.out['errors'].append(f'encoder validation: {name} [{tag}] under {eng}: the model predicts r{d} = {want[eng]:#x}, the real build gives {nat.get("status")} {nat.get("value")}')
    if ok: v['agree'] += 1


def worker(args):
    insts, props, timeout_ms = args
    try:
        ctx = Ctx(timeout_ms); cands = []; ops = set()
        for inst in insts:
            try: cands += check_instance(ctx, inst, props)
            except Exception as e:
                ctx.pr.out['errors'].append(f'{spec.opname(inst[0])} {inst}: {e}\n{traceback.format_exc()[-800:]}')
        ctx.pr.out['functions'] = ctx.I.functions_encoded()
        ctx.pr.out['stubs'] = sorted(ctx.I.stubs_used)
        Driver.close_all()
        return dict(out=ctx.pr.out, cands=cands)
    except Exception as e:
        return dict(out=dict(errors=[f'worker crashed: {e}\n{traceback.format_exc()}']), cands=[])


def replay_jit(c, engine_pair=('interp', 'jit')):
    """native differential: the same whole program under the interpreter and under the JIT"""
    import replaylib
    md = c.get('model')
    if md is None: return True, 'structural'
    md = dict(md); md['pc'] = max(md.get('pc', 0), 40); md['prog_len'] = 8 * (md['pc'] + 8); md['sfi'] = 0
    # registers are the x86 values under the register map
    aspect = c['role'].split('/')[2]
    obs = md.get('reg') if aspect == 'reg-value' else None
    inst = c['inst']; k = spec.classify(inst[0])[0]
    if k not in ('ldabs', 'ldind', 'ldx', 'st', 'stx', 'xadd'):
        # no memory involved: register values are plain constants, never region-relative
        md.update(mem_base=1 << 62, mbuff_base=(1 << 62) + (1 << 40), stack_base=(1 << 62) + (2 << 40), ranges=[], mem_len=16, mbuff_len=16, mem_bytes=[0] * 16, mbuff_bytes=[0] * 16)
    land = None
    b, why = replaylib.build_interp_program(md, observe_reg=obs, land=land)
    if b is None: return None, why
    if k in ('ja', 'jcond'):      # make fall-through and target distinguishable: target slot sets r0 := GOOD
        p = md['pc']; prog = bytearray(b['prog']); t = p + 1 + ref.sx(md['off'], 16)
        need = (t + 2) * 8
        if len(prog) < need: prog += ref.insn(0x95) * ((need - len(prog)) // 8)
        prog[8 * t:8 * t + 8] = ref.insn(0xb7, 0, 0, 0, replaylib.GOOD); prog[8 * t + 8:8 * t + 16] = ref.insn(0x95)
        if t != p + 1: prog[8 * (p + 1):8 * (p + 1) + 8] = ref.insn(0x95)
        b['prog'] = bytes(prog)
    helpers = [(inst[4] & 0xffffffff, 'h1')] if k == 'call' else []
    d = Driver.get('dev'); res = {}
    for eng in engine_pair:
        res[eng] = d.run(b['prog'], vm='mbuff', mem=b['mem'], mbuff=b['mbuff'], extra=b['extra'], engine=eng, helpers=helpers, allowed=b['allowed'], patch=b['patch'])
    a, bb = res[engine_pair[0]], res[engine_pair[1]]
    c['replay'] = dict(prog=b['prog'].hex() if len(b['prog']) < 4096 else f'<{len(b["prog"])//8} slots>', mem=b['mem'].hex(), patch=b['patch'],
                       results={e: {k2: v for k2, v in r.items() if k2 in ('status', 'value', 'msg', 'sig', 'mem')} for e, r in res.items()})
    if a.get('status') != 'ok': return None, f'interpreter run is {a.get("status")} ({a.get("msg")}): outside the premise of the property'
    if bb.get('status') != 'ok': return True, f'interpreter returns {a["value"]:#x}, compiled code: {bb.get("status")} {bb.get("sig", bb.get("msg"))}'
    if a['value'] != bb['value']: return True, f'interpreter returns {a["value"]:#x}, compiled code returns {bb["value"]:#x}'
    if a.get('mem') != bb.get('mem') or a.get('mbuff') != bb.get('mbuff'): return True, 'packet/metadata bytes differ between interpreter and compiled code'
    return False, f'both engines return {a["value"]:#x}'
