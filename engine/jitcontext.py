"""Premise of the per-instruction translation validation of the x86-64 JIT (C03, C07, C08): the code emitted for an instruction is a function of that
instruction alone.  The premise is an obligation over the MIR of JitCompiler::jit_compile (props/c12a.foreign_program_reads: no program byte outside the
current instruction flows into what one loop iteration decides or emits).  Where it fails, the solver's model names the neighbouring instruction, and
whole-program translation validation (jitwhole.check_program: emitted bytes vs interpreter, all inputs symbolic) is run on context programs built
around it: the neighbour directly before the instruction, reached both by fall-through and by a jump that bypasses the neighbour."""
import traceback
import multiprocessing as mp
from z3 import BitVec, ULT, ULE, UGE, Or, Not, simplify
import common, spec, obl, verif, mirsym, ref
from ref import insn
from props import c12a


def _detect(args):
    opcodes, timeout = args
    try:
        mir, key = common.load_mir('std'); tt = common.type_table()
        J = c12a.JitLoop(mir, tt, timeout); Vf = verif.Verif(mir, tt, timeout); pr = obl.Prover(timeout, common.seed()); alen = Vf.a_len(); found = []
        for opc in opcodes:
            name = spec.opname(opc)
            try:
                A, _, VP = Vf.accept_formula(opc); st, P = J.step(opc); n = J.prog_len / 8; off0 = J.jm_offset()
                st.pc += [alen, simplify(A), ULT(P.pc, n), J.nslots == n + 1, ULE(off0, 1 << 32), ULE(J.prog_len, 8000000), UGE(P.pc, 1),
                          Or(Not(J.jm_we()), UGE(J.jm_len(), off0 + 64)), ULE(J.jm_len(), 1 << 40), ULE(BitVec('jm.contents.ptr', 64), 1 << 62), ULE(BitVec('pc_locs.ptr', 64), 1 << 62)]
                n_assumed = len(st.pc); paths = J.eng.explore(st, cuts={(J.f.name, J.head)})
                for nb in c12a.foreign_program_reads(J, P, paths, pr, name, n_assumed)[:8]: found.append(dict(nb, opc=opc, name=name))
                pr.out['programs'] += 1
            except mirsym.Unsupported as e: pr.out['errors'].append(f'context premise {name}: {e}')
        for fn in J.eng.used_funcs:
            if fn in mir.funcs: pr.out['functions'][fn] = mir.fn_hash(fn)
        return dict(out=pr.out, found=found)
    except Exception as e:
        return dict(out=dict(errors=[f'jitcontext worker crashed: {e}\n{traceback.format_exc()[-1200:]}']), found=[])


def context_items(found, role):
    """whole-program instances around each (neighbour, instruction) pair; helper id of a call instruction is registered"""
    items = []; notes = []
    for nb in found:
        if nb['slot_delta'] != -1:
            notes.append(f'{nb["name"]}: emission depends on the instruction at pc{nb["slot_delta"]:+d}; no context program is built for that distance'); continue
        prev = bytes.fromhex(nb['bytes']); opc = nb['opc']; k = spec.classify(opc)[0]
        off = nb['off'] - 0x10000 if nb['off'] >= 0x8000 else nb['off']; imm = nb['imm'] - (1 << 32) if nb['imm'] >= 1 << 31 else nb['imm']
        one = insn(opc, nb['regbyte'] & 15, nb['regbyte'] >> 4, 0 if k in ('ja', 'jcond') else off, imm)
        if k == 'lddw': one += insn(0, 0, 0, 0, 0)
        helpers = [[imm & 0xffffffff, 'h1']] if k == 'call' and (nb['regbyte'] >> 4) == 0 else []
        setup = b''.join(insn(0x79, r, 1, 8 * (r - 1)) for r in (2, 3, 4, 5, 6, 7))        # r2..r7 from the metadata buffer (symbolic contents)
        tail = (insn(0xbf, 0, nb['regbyte'] & 15) if k not in ('call', 'exit', 'st', 'stx', 'xadd', 'ja', 'jcond') else b'') + insn(0x95)
        for tag, body in (('bypass', setup + insn(0xb7, 0) + insn(0x15, 7, 0, 1, 0) + prev + one + tail), ('fall-through', setup + insn(0xb7, 0) + prev + one + tail)):
            if not ref.wf(body)[0]: notes.append(f'{nb["name"]}: context program ({tag}) around neighbour {nb["bytes"]} is not verifier-accepted'); continue
            items.append(dict(name=f'context/{nb["name"]}-after-{nb["bytes"]}/{tag}', prog=body.hex(), vm='mbuff', helpers=helpers, min_mbuff=64, min_mem=1, role=role))
    return items, notes


def run(opcodes, props, timeout, role):
    """returns (counts, candidates, notes): candidates are whole-program differences (replayable by jitwhole.replay); notes that remain without a candidate
    mean the premise is unproven (the caller reports exit 2)"""
    import jitwhole
    nj = min(common.jobs(), max(1, len(opcodes)))
    with mp.Pool(nj) as pool: res = pool.map(_detect, [(opcodes[i::nj], timeout) for i in range(nj)])
    out = dict(obligations=0, discharged=0, inconclusive=[], solver_s=0.0, nontrivial=[], witnesses=0, twins=0, samples=[], errors=[], programs=0, functions={}); found = []
    for r in res:
        o = r['out']; found += r['found']
        for k in ('obligations', 'discharged', 'solver_s', 'programs'): out[k] += o.get(k, 0)
        for k in ('inconclusive', 'nontrivial', 'errors'): out[k] += o.get(k, [])
        out['samples'] += o.get('samples', [])[:1]; out['functions'].update(o.get('functions', {}))
    cands = []; notes = []
    if found:
        items, notes = context_items(found, role)
        o2, cands = jitwhole.run_items(items, props, max(timeout, 60000))
        for k in ('obligations', 'discharged', 'solver_s', 'programs'): out[k] += o2.get(k, 0)
        for k in ('inconclusive', 'nontrivial', 'errors'): out[k] += o2.get(k, [])
        if not cands: notes.append('emission depends on a neighbouring instruction (' + '; '.join(sorted(set(f"{f['name']} <- {f['bytes']}" for f in found)))[:300] + ') and the context programs show no difference: the per-instruction results do not lift to whole programs')
    return out, cands, notes
