SETUP_CMD = './setup.sh'
HOOKS = dict(guard='--cfg rbpf_verif', enable='RUSTFLAGS="--cfg rbpf_verif" (set by engine/driver.py when it builds /verif/driver against /repo)',
             baseline_off_cmd='cd /repo && cargo test --workspace --no-fail-fast --offline', source_commits=[], add_only=True)
ENGINES = [
 dict(name='mirsym', path='engine/mirsym.py', serves_properties=['C01', 'C02', 'C05', 'C06', 'C07', 'C08', 'C09', 'C10', 'C12', 'C13', 'C14', 'C15', 'C16', 'C17', 'C18', 'C19', 'C20'], kind_free_text='symbolic executor for rustc MIR text -> z3 (bit-vector + array theory)'),
 dict(name='x86sym', path='engine/x86sym.py', serves_properties=['C03', 'C07', 'C08', 'C09', 'C18'], kind_free_text='symbolic executor for the x86-64 subset emitted by src/jit.rs'),
 dict(name='kani', path='kani/ + engine/kani_run.py', serves_properties=['C17', 'C19'], kind_free_text='Kani 0.68 proof harness crate (CBMC 6.11)'),
 dict(name='clifsym', path='engine/clifsym.py', serves_properties=['C04', 'C08', 'C09', 'C11', 'C18'], kind_free_text='symbolic executor for the Cranelift IR text built by src/cranelift.rs'),
 dict(name='driver', path='driver/', serves_properties=['C01', 'C02', 'C03', 'C04', 'C05', 'C06', 'C07', 'C08', 'C09', 'C10', 'C11', 'C12', 'C13', 'C14', 'C15', 'C16', 'C18', 'C19', 'C20'], kind_free_text='native replay driver (never a deciding step)'),
]
NOTES = 'Solver-based checking of the real code: see DESIGN.md. Exit codes: 0 held, 1 reproduced violation, 2 inconclusive/machinery.'
INTERP_NOTE = ('Trusted: rustc MIR as the meaning of the source; mirsym intrinsic table; z3; the reference semantics transcribed from the '
               'statement. Assumed: Rust slice/allocation facts (no wrap, non-null, stack allocation disjoint), environment stubs listed in evidence. '
               'Single-step obligations have no step bound; lifting to whole runs is induction on executed instructions (paper step).')
CHECKS = {
 'C01': dict(level='model_checking', engine='mirsym', design_ref='DESIGN.md 5/C01',
   technique='symbolic execution of the MIR of interpreter::execute_program (one loop iteration from an arbitrary state) + z3 equivalence with a reference ISA semantics, per opcode, all operands',
   text='For each of the 122 verifier-accepted opcodes the interpreter arm is executed symbolically from a havocked loop-head state (all registers, pc < 10^6, '
        'all immediates/offsets, dst/src as symbolic nibbles, call depth 0..8) and z3 shows registers, pc, memory and frame state equal the reference semantics on every path, '
        'in the dev profile (overflow checks are panics) and the release profile (wrapping). Counterexamples are replayed as whole programs through the public API.',
   note=INTERP_NOTE),
 'C02': dict(level='model_checking', engine='mirsym', design_ref='DESIGN.md 5/C02',
   technique='symbolic execution of the MIR of execute_program/check_mem with an access log + z3 containment obligations over symbolic region layouts',
   text='For every load/store/atomic instruction and width: every access actually performed lies wholly inside packet, metadata buffer, stack or a registered range; an access wholly inside a region is never refused; '
        'a refused access returns Err with an empty write log and never panics; the address is reg+sext(off) (packet+imm[+src]). Region bases/lengths and 2 (quick) / 3 (thorough) registered ranges are symbolic.',
   note=INTERP_NOTE),
 'C05': dict(level='model_checking', engine='mirsym', design_ref='DESIGN.md 5/C05',
   technique='symbolic execution of the MIR of verifier::check and of interpreter::execute_program; the extracted acceptance formula of the real verifier is the assumption of the interpreter step; z3 shows no panic path and invariant preservation',
   text='For all 256 opcode byte values: A(pc) (the condition under which the real verifier loop body does not reject the slot, extracted from MIR) and the extracted Ok condition of check_prog_len are assumed; '
        'z3 shows that no path of one interpreter iteration is a panic/unreachable (register index, get_insn range, unreachable!() arms, every arithmetic overflow assert in the dev profile) and that the loop invariant '
        '(pc inside the program and on an instruction start, depth <= 8, frame-pointer equation, valid saved return addresses) is preserved; both profiles.',
   note=INTERP_NOTE + ' Paper lemma: in an accepted program a position that is not an instruction start has opcode 0 (used through instances).'),
 'C06': dict(level='model_checking', engine='mirsym', design_ref='DESIGN.md 5/C06',
   technique='symbolic execution of the MIR of verifier::check (check_prog_len, one loop iteration at a symbolic index, loop exit) + z3 equivalence with the well-formedness predicate of the statement, for each of the 256 opcode bytes',
   text='check_prog_len Ok <=> length/last-instruction clause; loop body at any index i of a program of any length: not rejected <=> L(i) clause by clause, next index i+1 / i+2, never a panic; loop exit verdict. '
        'Program length, index, register byte, offset, immediate and the opcode at the jump/call target are symbolic (no length bound).',
   note='Trusted: rustc MIR, mirsym intrinsic table, z3, the transcription of the statement. accept <=> WF for whole programs is the induction over the loop (paper step).'),
 'C03': dict(level='translation_validation', engine='x86sym+mirsym', design_ref='DESIGN.md 5/C03',
   technique='translation validation: symbolic execution (z3) of the machine code the real JIT emitted, compared under the register map with the interpreter step extracted from MIR; whole-program runs for control flow and long distances',
   text='Per-instruction simulation: for every opcode x a covering set (quick) / all (thorough) of dst/src pairs x the immediate/offset classes of the encoder, the bytes emitted for that instruction are executed symbolically from an '
        'arbitrary machine state and z3 shows registers (under the map), memory, next code offset, RSP, the packet-pointer register and r12 equal the interpreter step extracted from MIR, for all operand values. '
        'Whole-program families (jump fix-ups over variable-length encodings, loops, jumps beyond instruction 65535, divide-by-zero continuations) compare RAX and buffer bytes at the final ret with the MIR interpreter run on the same program. '
        'Counterexamples are replayed natively (interpreter vs JIT).',
   note='Trusted: rustc MIR, the x86-64 semantics table of x86sym (only encodings the JIT emits), z3. Assumed: eBPF-visible regions are away from the native stack scratch area; in-bounds accesses (premise). Program shapes are enumerated families; operand values are unbounded.'),
 'C17': dict(level='proof', engine='kani+mirsym', design_ref='DESIGN.md 5/C17',
   technique='Kani/CBMC proof harnesses over the real encode/decode/builder functions (all field values, unwinding assertions, cover witnesses) + mirsym/z3 obligation for get_insn at an unbounded symbolic index',
   text='Bounded proofs by CBMC: get_insn/to_array/to_vec round trips for all 2^64 slot values and all field values, at every index of a 4-slot (thorough: 8-slot) program, to_insn_vec element-wise; every insn_builder constructor family '
        'with symbolic registers/offset/immediate emits exactly Insn{opc: the ebpf.rs constant}.to_array(). z3 over the MIR of get_insn: fields = encoded bytes and panic iff (idx+1)*8 > len for symbolic idx and length (no bound).',
   note='Trusted: Kani 0.68/CBMC 6.11 (cadical), rustc MIR, z3. Bounds: unwind values and slot counts per harness (evidence.kani). Builder == assembler goes through the mnemonic table checked in C13.'),
 'C19': dict(level='proof', engine='kani+mirsym', design_ref='DESIGN.md 5/C19',
   technique='Kani/CBMC harnesses for gather_bytes/memfrob/strcmp; mirsym + z3 (bit-vector, floating-point theory) over the MIR of helpers::rand and helpers::sqrti',
   text='gather_bytes for all five u64; memfrob on a 10-byte (thorough 24) buffer with symbolic start/len: exactly the addressed bytes XOR 0x2a, involution; strcmp on two NUL-terminated buffers and null pointers; '
        'rand: for all min < max and every generator output the result is in [min,max] and no path panics (dev and release profiles); sqrti: equals trunc(fp.sqrt(x as f64)) for all 64-bit x, exact integer root for x < 2^16 (thorough 2^20).',
   note='bpf_trace_printf (stdout, f64::log) is not decided: no SMT counterpart; sqrti exact-root claim only below the stated bound; rand generator is an environment stub. Trusted: Kani/CBMC, z3 FP theory, rustc MIR.'),
 'C04': dict(level='translation_validation', engine='clifsym+mirsym', design_ref='DESIGN.md 5/C04',
   technique='translation validation: symbolic execution (z3) of the Cranelift IR the real front end built (hook H2), compared with the interpreter (MIR of execute_program executed symbolically on the same program); native enumeration for the refusal of local calls',
   text='For every opcode x register pairs x immediate/offset classes a whole program around the instruction (operands loaded from symbolic metadata bytes) and a control-flow family are compiled by the real cranelift front end; the CLIF text is '
        'executed symbolically and z3 shows the returned value and the packet/metadata bytes equal the interpreter\'s for all inputs, and that the compiled code does not trap where the interpreter returns a value. '
        'Programs with an eBPF-to-eBPF call must be refused by cranelift_compile (family of displacements x helper sets, compiled natively).',
   note='Trusted: Cranelift lowering/regalloc/ABI (only the eBPF -> CLIF translation is validated), CLIF semantics table of clifsym, rustc MIR, z3. Program shapes are enumerated families; data is unbounded. Non-empty packet for ld_abs/ld_ind (empty-packet context is C09).'),
 'C11': dict(level='translation_validation', engine='clifsym', design_ref='DESIGN.md 5/C11',
   technique='symbolic execution (z3) of the Cranelift IR emitted for every access instruction with symbolic base register and region layout; containment obligations on the accesses actually emitted and on the trap guards',
   text='For ldx/st/stx/xadd/ldabs/ldind x 4 widths x offset classes: on every CLIF path, each load/store/atomic_rmw lies wholly inside the stack slot, packet or metadata buffer (no wrap), and a bounds-check trap fires only if the access it guards is not wholly inside a region; '
        'base register, region bases and lengths (incl. empty/absent) are symbolic.',
   note='Trusted: Cranelift lowering of trapz and of the accesses; CLIF semantics table; z3. Distinct buffers do not overlap.'),
 'C12': dict(level='model_checking', engine='mirsym', design_ref='DESIGN.md 5/C12',
   technique='symbolic execution of the MIR of JitCompiler::jit_compile (prologue, one loop iteration per accepted opcode from an arbitrary compiler state, epilogue) and of JitMemory::new, under the acceptance formula extracted from the real verifier + z3; bounded native compilation families for Cranelift and for whole compilations',
   text='x86-64 JIT, for each of the 122 accepted opcodes and all field values, code offsets and both passes: no panic path in the loop body (register map index, pc_locs index, arithmetic overflow, unreachable arms); at most 64 bytes per instruction; recorded jump fix-ups lie inside the emitted bytes; '
        'the sizing pass and the emitting pass emit the same number of bytes (prologue, each instruction, epilogue), every buffer-capacity assert of an emitting path follows from room for the bytes it emits, and JitMemory::new hands the emitting pass the same program/flags/helpers and a buffer >= the counted size. '
        'Native complement: about 1,700 (thorough 9,000) accepted programs (every opcode x boundary fields, control-flow shapes, sizes around 2^16 and up to 10^6) compiled by both compilers in a child process: Ok/Err only, repeatable.',
   note='Induction over instructions of the emitting pass (room = bytes still to be emitted) is a paper step on top of the discharged per-step obligations. resolve_jumps and Cranelift are covered by the native families only (Cranelift internals are out of reach for the solver). Allocation failure is outside the claim. Trusted: rustc MIR, z3.'),
 'C07': dict(level='model_checking', engine='mirsym+x86sym', design_ref='DESIGN.md 5/C07',
   technique='symbolic execution of the MIR of the interpreter CALL/EXIT arms from an arbitrary frame state + z3 (call/exit semantics, frame lemma for every opcode, pairing lemma); whole-program translation validation of the JIT on a local-call family',
   text='Interpreter: for call (src=1) and exit from an arbitrary state (depth 0..8, any displacement, any Option<u16> frame size per function entry) z3 shows saved r6-r9/return address, r10 lowered by the frame size, r0-r9 untouched, target pc+1+imm without overflow, '
        'Err at depth 8, restore on exit; every opcode leaves the frames of suspended callers untouched; the pairing lemma gives r6-r10 restored across call/return. JIT: 7 call-graph programs compared with the interpreter for all inputs (x86sym).',
   note=INTERP_NOTE + ' JIT depth > 8 and custom frame sizes are outside the claim. Two known findings (frame pointer not lowered by the JIT).'),
 'C08': dict(level='translation_validation', engine='mirsym+x86sym+clifsym', design_ref='DESIGN.md 5/C08',
   technique='interpreter: symbolic execution of the MIR CALL arm with the helper table and the helper as uninterpreted functions + z3; JIT: x86sym on the emitted call sequence (target, SysV argument registers, RSP alignment); Cranelift: clifsym on the emitted call; unknown ids: native compile results',
   text='Interpreter (any u32 id, any registered set): exactly one invocation of the function registered under zext(imm) with (r1..r5), result in r0, r6-r10 unchanged, unregistered id => Err with no invocation. '
        'JIT: call target = the registered address, (rdi,rsi,rdx,rcx,r8) = (r1..r5), RSP = 0 mod 16 at the call given the SysV entry condition - at top level, with two calls, and inside local functions of depth 1..3; same value as the interpreter. '
        'Cranelift: callee identity via the FuncRef map, argument order, result to r0. Unknown id => Err from jit_compile and cranelift_compile.',
   note=INTERP_NOTE + ' Trusted: SysV entry alignment, Cranelift ABI lowering. Compiled-code call sites are an enumerated family; arguments are symbolic.'),
 'C18': dict(level='model_checking', engine='mirsym+x86sym+clifsym', design_ref='DESIGN.md 5/C18',
   technique='shape of the update extracted from the real artefacts (MIR fetch_add / lock-prefixed add bytes / CLIF atomic_rmw) + z3: functional effect for all addends, widths, alignments; bounded interleaving model generated from the shapes with symbolic schedules (integer encoding)',
   text='Functional: M\' = M[a..a+w := old + trunc_w(src)], nothing else written, misaligned => interpreter Err with empty write log, same memory effect in JIT and Cranelift code. Shapes: one AtomicU32/U64::fetch_add after the alignment test; one F0-prefixed 01 /r on a memory operand of the right width; one atomic_rmw.i32/i64 add. '
        'Interleavings: 2 (thorough 3) threads x 2 adds, every multiset of engines, schedule = symbolic position variables: final word = initial + sum of addends mod 2^w for every schedule; a twin model with a split update must lose an update.',
   note='Trusted: atomicity of fetch_add, of the lock prefix and of Cranelift atomic_rmw; sequentially consistent interleaving of the extracted steps. Bounds: threads and adds as stated.'),
 'C09': dict(level='model_checking', engine='mirsym+x86sym+clifsym', design_ref='DESIGN.md 5/C09',
   technique='symbolic execution of the MIR of the interpreter prelude and of the VM wrapper methods in src/lib.rs (self as a lazily materialised symbolic struct, engines as argument-recording stubs) + x86sym on the JIT prologue of each variant + clifsym on the Cranelift prelude; z3',
   text='Interpreter entry: r1 = metadata buffer / packet / 0, r10 = stack top, other registers 0. Wrappers of the 4 VM kinds x 3 engines: the buffers, lengths, null-for-empty packet pointer and offsets handed to each engine are the documented ones for every packet and configuration; '
        'EbpfVmFixedMbuff writes exactly (buffer+data_offset := packet start) and (buffer+data_end_offset := packet end) under the interpreter and Cranelift. JIT prologues (mbuff, raw/no-data, fixed x 3 offset pairs): r1, r10 = top of a reserved 512-byte area, packet pointer kept for ld_abs, the two stores of the fixed variant. Cranelift prelude: r1 select, r10, 512-byte slot. Native probes confirm through the public API.',
   note='Trusted: rustc MIR, x86/CLIF semantics tables, z3. Offsets <= 2^40; non-overlapping offsets (statement); the empty-metadata-buffer case of the metadata VM is not claimed. Native probes are confirmation only.'),
 'C10': dict(level='model_checking', engine='mirsym', design_ref='DESIGN.md 5/C10',
   technique='inductive step over API histories: symbolic execution of the MIR of each VM method in src/lib.rs from an arbitrary VM state (self = lazily materialised symbolic struct), verifier/validator/compilers/engines as argument-recording stubs with arbitrary results; frame and post-state obligations',
   text='For set_program, set_verifier, jit_compile, cranelift_compile, execute_program, execute_program_jit, execute_program_cranelift on each of the 4 VM kinds (std and cranelift builds): an Err result leaves every field of the VM untouched; Ok(set_program) stores exactly the new program, after the verifier in force accepted it, and drops the compiled artefacts of the previous program; '
        'set_verifier runs the new verifier on the loaded program before installing it; the compilers compile the loaded program; no method panics; executing with no program is an error. Findings are replayed as short constructive histories through the public API.',
   note='One call from an arbitrary state (no history bound). Stubs as listed in evidence; HashMap/HashSet updates opaque. Trusted: rustc MIR, z3.'),
 'C13': dict(level='model_checking', engine='mirsym', design_ref='DESIGN.md 5/C13',
   technique='symbolic execution of the MIR of assembler::encode / insn / operands_tuple for every entry of the real mnemonic table (hook H3) with symbolic operand lists, and of the numeric-literal closures of asm_parser with the digit string as an unbounded natural; z3 equivalence with the documented encoding',
   text='Mnemonic table == the documented table (92 entries). For every table entry and 0..4 operands of arbitrary kind and value: encode is Ok iff the operand shape is the documented one and 0<=reg<16, off in i16, imm in i32, and then opcode/dst/src/off/imm are the ones written with unused fields zero (lddw: low half + second slot with the high half); Err otherwise. '
        'Literal closures: Ok(N) iff N fits, for every magnitude N. Bytes follow through Insn::to_array (C17).',
   note='The combine grammar (which characters tokenise into which operands, whitespace) is NOT encoded: no solver front end here reaches generic combinator code. Operand::Nil and negative register numbers are never produced by the grammar (assumption).'),
 'C14': dict(level='model_checking', engine='mirsym', design_ref='DESIGN.md 5/C14',
   technique='same extraction as C13; obligation = no panic terminal on any path of the literal closures (digit string = unbounded natural N), of encode/insn for any operands, and of the lddw tail',
   text='No path of integer/register literal conversion, sign application, operand construction, encode, insn or the lddw second-slot code ends in a panic, for every literal magnitude, sign and operand value; counterexamples are printed as text and fed to assemble() natively.',
   note='Totality/termination of the combine library on arbitrary characters is outside reach (grammar layer).'),
 'C15': dict(level='model_checking', engine='mirsym', design_ref='DESIGN.md 5/C15',
   technique='symbolic execution of the MIR of disassembler::to_insn_vec (one loop iteration at a symbolic index, per opcode) with format! decoded structurally into token sequences; z3 obligations on fields, names and the operands the documented grammar reads back from the text',
   text='For each of the 123 supported opcodes with symbolic register nibbles, offset, immediate (and second slot for lddw): no panic; exactly one entry; opc/dst/src/off equal the encoded fields, imm sign-extended (lo|hi<<32 for lddw, second slot skipped); name = the mnemonic; '
        'the text, tokenised by the documented operand grammar, denotes exactly the fields of the instruction in the assembler\'s operand order (sign and magnitude of offsets, 0x radix).',
   note='format! rendering to bytes is replaced by the decoded (template, arguments) pair; unknown template encodings make the run inconclusive. Trusted: rustc MIR, z3, the documented grammar.'),
 'C16': dict(level='model_checking', engine='mirsym', design_ref='DESIGN.md 5/C16',
   technique='composition of the token sequences extracted from disassembler::to_insn_vec (C15) with the encoder model that C13 proves equivalent to assembler::encode, through the documented operand grammar; z3',
   text='For every assembler-expressible opcode and all field values: whenever the printed text is accepted, the assembled instruction has the same opcode and the same used fields (canonical form); with unused fields zero and a non-negative immediate (any 64-bit value for lddw) the text is accepted and yields the original bytes.',
   note='The grammar layer (combine) is an assumption here: the one place where a model stands in for code. xadd and tail_call are not expressible by the assembler (outside the first clause).'),
 'C20': dict(level='model_checking', engine='mirsym', design_ref='DESIGN.md 5/C20',
   technique='product check: the same mirsym extraction is run on the rustc MIR of both feature configurations (std / --no-default-features) from the same symbolic state and z3 decides whether any outcome can differ; the no_std JitMemory::new gets the C12 obligations; bounded native complement through two builds of the driver',
   text='For the interpreter (prelude + one iteration per opcode), the verifier (check_prog_len + one iteration per opcode byte), the disassembler (one iteration per opcode), assembler::encode (per instruction kind, 0..4 symbolic operands), the x86-64 JIT (prologue + one emitting iteration per opcode) and the VM wrapper methods of src/lib.rs (4 VM kinds x set_program/set_verifier/register_helper/register_allowed_memory/execute_program/jit_compile/execute_program_jit, caller-supplied executable memory present): '
        'for every path pair with compatible conditions the two builds have the same outcome kind, return value incl. Err payload (constructor, kind, format template, arguments), registers, pc, frames, memory, access log, helper events, emitted bytes and code offset, engine arguments and final VM fields. '
        'no_std JitMemory::new: same program/flags/helpers to both passes, pass 2 writes into the caller memory which is page aligned and at least the counted size, Err otherwise, no panic. '
        'Native complement (about 10,000 comparisons): assembler texts incl. layout variants (this reaches the combine grammar), verifier verdicts and disassembly of accepted and damaged programs, interpreter and JIT runs of an address-free execution corpus, API call sequences on the four VM kinds.',
   note='The combine grammar layer (easy_parse vs parse entry points) is reached only by the bounded native corpus, not by the solver (generic combinator code is outside the front ends here); error message TEXT of the assembler differs between builds by design (only Ok/Err and bytes are compared there). Helpers that exist only with std and Cranelift (std only) are outside the statement. Trusted: rustc MIR of both builds, z3; cfg-aware field naming scraped from the source.'),
}
NOT_APPLICABLE = {}
