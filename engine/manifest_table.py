SETUP_CMD = './setup.sh'
HOOKS = dict(guard='--cfg rbpf_verif', enable='RUSTFLAGS="--cfg rbpf_verif" (set by engine/driver.py when it builds /verif/driver against /repo)',
             baseline_off_cmd='cd /repo && cargo test --workspace --no-fail-fast --offline', source_commits=[], add_only=True)
ENGINES = [
 dict(name='mirsym', path='engine/mirsym.py', serves_properties=['C01', 'C02'], kind_free_text='symbolic executor for rustc MIR text -> z3 (bit-vector + array theory)'),
 dict(name='driver', path='driver/', serves_properties=['C01', 'C02'], kind_free_text='native replay driver (never a deciding step)'),
]
NOTES = 'Solver-based checking of the real code: see DESIGN.md. Exit codes: 0 held, 1 reproduced violation, 2 inconclusive/machinery.'
CHECKS = {}
NOT_APPLICABLE = {}
