"""Extraction of the default verifier (verifier::check) from its MIR: check_prog_len as a formula, and one iteration
of the per-instruction loop from an arbitrary loop-head position.  Symbols are shared (by name) with interp.Interp so
that the *real* acceptance formula A(pc) can be used as the assumption of the interpreter's obligations (C05)."""
from z3 import (BitVec, BitVecVal, BoolVal, Array, BitVecSort, Select, And, Or, Not, If, ULT, ULE, UGT, UGE, URem, Extract,
                ZeroExt, SignExt, simplify, BVAddNoOverflow, is_true)
import mirsym
from mirsym import V, Agg, Enum, Slice, Opaque, Unsupported

B64 = lambda n: BitVec(n, 64)


class VPre:
    pass


class Verif:
    def __init__(self, mir, types, timeout_ms=20000):
        self.mir = mir; self.types = types
        self.f = mir.funcs['check']; self.flen = mir.funcs['check_prog_len']
        self.eng = mirsym.Engine(mir, types, timeout_ms)
        self.eng.summarize = {'get_insn'}
        self.prog_base, self.prog_len = B64('prog_base'), B64('prog_len')
        self.M0 = Array('M0', BitVecSort(64), BitVecSort(8))
        heads = self.f.loop_heads()
        if len(heads) != 1: raise Unsupported(f'verifier::check: expected one loop, found {heads}')
        self.head = heads[0]
        self.ip = self.f.local_of('insn_ptr')
        self._head = None
    def base(self):
        # what Rust guarantees about a slice
        if not hasattr(self, '_b'):
            self._b = [simplify(c) for c in (BVAddNoOverflow(self.prog_base, self.prog_len, False), self.prog_base != 0,
                                             ULE(self.prog_base + self.prog_len, 1 << 63))]
            self.eng.base_n = len(self._b)
        return self._b
    def opc_at(self, slot):
        return Select(self.M0, self.prog_base + 8 * slot)
    # ------------------------------------------------------------ check_prog_len
    def prog_len_paths(self):
        st = mirsym.State(); st.mem = self.M0; st.pc = list(self.base())
        fr = mirsym.Frame(self.flen); fr.tag = 'top'; st.frames.append(fr)
        fr.locals[self.flen.params[0][0]] = Slice(self.prog_base, self.prog_len)
        return self.eng.explore(st)
    def a_len(self):
        """the condition under which the real check_prog_len returns Ok (disjunction of its Ok paths)"""
        ok = []
        nb = len(self.base())
        for p in self.prog_len_paths():
            if p.kind == 'return' and is_true(simplify(p.payload.disc() == 0)): ok.append(And(*p.st.pc[nb:]) if len(p.st.pc) > nb else BoolVal(True))
        return Or(*ok) if ok else BoolVal(False)
    # ------------------------------------------------------------ loop
    def head_state(self):
        if self._head is None:
            st = mirsym.State(); st.mem = self.M0; st.pc = list(self.base())
            fr = mirsym.Frame(self.f); fr.tag = 'top'; st.frames.append(fr)
            fr.locals[self.f.params[0][0]] = Slice(self.prog_base, self.prog_len)
            k = (self.f.name, self.head); st.visits[k] = 1
            ps = self.eng.explore(st, cuts={k})
            cuts = [p for p in ps if p.kind == 'cut']
            if len(cuts) < 1: raise Unsupported('verifier prelude: no path reaches the loop')
            self.prelude_paths = ps
            self._head = cuts[0].st
        return self._head
    def make_pre(self, opc=None):
        st = self.head_state().fork(); fr = st.frames[0]
        self.eng.memo.clear()
        st.pc = list(self.base()); st.log = []; st.events = []; st.visits = {}
        P = VPre(); P.prog_base, P.prog_len, P.M0 = self.prog_base, self.prog_len, self.M0
        P.pc = B64('pc')
        body = self.f.loop_body(self.head)
        P.carried = {}
        for l in self.f.assigned_in(body):
            had = fr.locals.pop(l, None)
            # a local that is live at the loop head and assigned inside the loop is loop-carried state: arbitrary value of its type
            ty = self.f.locals.get(l, '')
            if had is not None and l != self.ip and (ty == 'bool' or ty in mirsym.INT_TYPES):
                fr.locals[l] = self.eng.fresh_lazy(ty, f'carried{l}'); P.carried[l] = fr.locals[l]
        fr.locals[self.ip] = V(P.pc, 'usize')
        P.opc = BitVecVal(opc, 8) if opc is not None else BitVec('opc', 8)
        P.regbyte = BitVec('regbyte', 8); P.off = BitVec('off', 16); P.imm = BitVec('imm', 32)
        P.nopc = BitVec('nopc', 8); P.nregbyte = BitVec('nregbyte', 8); P.noff = BitVec('noff', 16); P.next_imm = BitVec('next_imm', 32)
        a0 = self.prog_base + 8 * P.pc
        bts = []
        for t in (P.opc, P.regbyte, P.off, P.imm, P.nopc, P.nregbyte, P.noff, P.next_imm):
            for i in range(t.size() // 8): bts.append(Extract(8 * i + 7, 8 * i, t) if t.size() > 8 else t)
        P.named = [Select(self.M0, a0 + i) == b for i, b in enumerate(bts)]
        st.pc += P.named
        st.aux['overlay'] = mirsym.Engine.make_overlay(a0, bts)
        P.dst = ZeroExt(60, Extract(3, 0, P.regbyte)); P.src = ZeroExt(60, Extract(7, 4, P.regbyte))
        P.n = self.prog_len / 8
        return st, P
    def step_paths(self, st):
        return self.eng.explore(st, cuts={(self.f.name, self.head)})
    def next_pc(self, path):
        return path.st.frames[0].locals[self.ip].t
    def accept_formula(self, opc):
        """A_o(pc): the real loop body, entered at an instruction index pc with pc*8 < len, does not reject the
        instruction whose opcode byte is `opc`; also returns the panic condition (should be unreachable)."""
        st, P = self.make_pre(opc)
        nb = len(st.pc)
        paths = self.step_paths(st)
        acc = []; pan = []
        for p in paths:
            c = And(*p.st.pc[nb:]) if len(p.st.pc) > nb else BoolVal(True)
            if p.kind == 'cut': acc.append(c)
            elif p.kind == 'panic': pan.append(c)
        return (Or(*acc) if acc else BoolVal(False)), (Or(*pan) if pan else BoolVal(False)), P
    def functions_encoded(self):
        return {n: self.mir.fn_hash(n) for n in sorted(self.eng.used_funcs) if n in self.mir.funcs}


# ------------------------------------------------------------------------------------------ C06's statement
def wf_insn(P, opc, opc_at):
    """L(i): the instruction with opcode byte `opc` at index P.pc is well-formed, exactly as C06's statement lists it.
    opc_at(slot) gives the opcode byte of another slot."""
    import spec
    c = spec.classify(opc)
    if c is None: return BoolVal(False)
    k, i = c
    if k == 'tail_call': return BoolVal(False)
    n = P.n; cs = [ULE(P.src, 10)]
    store_cls = (opc & 7) in (spec.CLS_ST, spec.CLS_STX)
    cs.append(Or(ULE(P.dst, 9), And(P.dst == 10, BoolVal(store_cls))))
    def lands(tgt):     # 0 <= tgt < n as mathematical integers (tgt computed in 64-bit two's complement, |disp| < 2^31, pc < 2^20)
        return And(tgt >= 0, ULT(tgt, n), opc_at(tgt) != 0)
    if k == 'lddw': cs += [ULT(P.pc + 1, n), P.nopc == 0]
    if k in ('ja', 'jcond'):
        cs += [P.off != 0xffff, lands(P.pc + 1 + SignExt(48, P.off))]
    if k == 'call':
        cs.append(Or(P.src == 0, And(P.src == 1, lands(P.pc + 1 + SignExt(32, P.imm)))))
    if k == 'endian': cs.append(Or(P.imm == 16, P.imm == 32, P.imm == 64))
    if k == 'xadd': cs.append(P.imm == 0)
    return And(*cs)
