"""Obligation runner: one z3 solver per worker process, push/pop per query, timing and triviality accounting."""
import time, os, subprocess, hashlib
from z3 import Solver, Not, And, simplify, is_false, is_true, sat, unsat, unknown, BoolVal, is_bv_value, BitVecNumRef


class Prover:
    def __init__(self, timeout_ms, seed=0):
        self.s = Solver(); self.s.set('timeout', timeout_ms); self.timeout_ms = timeout_ms; self.fresh_mode = False
        if seed: self.s.set('random_seed', seed % (1 << 30))
        self.seed_ = seed
        self.out = dict(obligations=0, discharged=0, inconclusive=[], solver_s=0.0, nontrivial=[], witnesses=0, twins=0,
                        samples=[], errors=[], programs=0, functions={})
        self.candidates = []
    def check_fresh(self, assumptions, extra, timeout_ms=None):
        """same as check() but with a fresh non-incremental solver (z3's tactic pipeline: needed for floating point)"""
        t0 = time.time(); s = Solver(); s.set('timeout', timeout_ms or self.timeout_ms)
        for a in assumptions: s.add(a)
        for a in extra: s.add(a)
        r = s.check(); m = s.model() if r == sat else None
        self.out['solver_s'] += time.time() - t0
        return str(r), m
    def check(self, assumptions, extra):
        """plain satisfiability of assumptions + extra -> ('sat'|'unsat'|'unknown', model|None)"""
        if self.fresh_mode: return self.check_fresh(assumptions, extra)
        t0 = time.time()
        self.s.push()
        try:
            for a in assumptions: self.s.add(a)
            for a in extra: self.s.add(a)
            r = self.s.check()
            m = self.s.model() if r == sat else None
        finally:
            self.s.pop()
        self.out['solver_s'] += time.time() - t0
        return str(r), m
    def prove(self, name, assumptions, goal, sample=None):
        """obligation: assumptions => goal.  Returns (status, model)."""
        self.out['obligations'] += 1
        neg = simplify(Not(goal))
        trivial = is_false(neg)
        if trivial:
            self.out['discharged'] += 1; return 'unsat', None
        self.out['nontrivial'].append(name)
        r, m = self.check(assumptions, [neg])
        if r == 'unknown':
            # second attempt: a fresh (non-incremental) solver with twice the time; incremental mode and a loaded machine both cost decidable queries
            self.out['retried'] = self.out.get('retried', 0) + 1
            r, m = self.check_fresh(assumptions, [neg], 2 * self.timeout_ms)
        self.last = (list(assumptions), neg)
        if r in ('unsat', 'sat'): self.cross_check(name, assumptions, neg, r)
        if r == 'unsat':
            self.out['discharged'] += 1
            if sample is not None and len(self.out['samples']) < 3: self.out['samples'].append(sample)
        elif r == 'unknown':
            self.out['inconclusive'].append(name)
        return r, m
    # ---- second opinion: a seed-driven sample of the non-trivial queries is exported as SMT-LIB2 and re-decided by cvc5 and by the
    # older z3 4.8.12 binary; a disagreement with the verdict used is an encoding/solver alarm (machinery error, exit 2), never a verdict
    XCHECK_PER_WORKER = int(os.environ.get('VERIF_XCHECK', '3'))
    def cross_check(self, name, assumptions, neg, verdict):
        n = self.out.setdefault('xcheck', dict(exported=0, agree=0, unknown=0, disagree=0))
        if n['exported'] >= self.XCHECK_PER_WORKER: return
        h = int(hashlib.sha256((name + str(len(self.out['nontrivial']))).encode()).hexdigest(), 16)
        seed = getattr(self, 'seed_', 0)
        if (h + seed) % 7 != 0: return
        try:
            s2 = Solver()
            for a in assumptions: s2.add(a)
            s2.add(neg)
            text = '(set-logic ALL)\n' + s2.to_smt2()
            if len(text) > 3_000_000: return
            d = os.path.join(os.path.dirname(os.path.dirname(os.path.abspath(__file__))), '.work', 'xcheck'); os.makedirs(d, exist_ok=True)
            p = os.path.join(d, f'q-{os.getpid()}-{n["exported"]}.smt2'); open(p, 'w').write(text)
            n['exported'] += 1
            for cmd in (['cvc5', '--lang', 'smt2', '--tlimit=10000', p], ['/usr/bin/z3', '-T:10', p]):
                try: o = subprocess.run(cmd, stdout=subprocess.PIPE, stderr=subprocess.STDOUT, timeout=15).stdout.decode()
                except Exception: n['unknown'] += 1; continue
                first = [l.strip() for l in o.splitlines() if l.strip() in ('sat', 'unsat', 'unknown', 'timeout')]
                if '(error' in o or not first or first[0] in ('unknown', 'timeout'): n['unknown'] += 1
                elif first[0] == verdict: n['agree'] += 1
                else:
                    n['disagree'] += 1; self.out['errors'].append(f'solver disagreement on {name}: z3 (python) says {verdict}, {cmd[0]} says {first[0]} ({p})')
            if not n['disagree']:
                try: os.remove(p)
                except OSError: pass
        except Exception as e:
            n['unknown'] += 1
    def refine(self, tiers, m0):
        """re-solve the last failing query under successively weaker 'replay-friendly' preferences; first sat wins"""
        a, neg = self.last
        for prefs in tiers:
            r, m = self.check(a, [neg] + list(prefs))
            if r == 'sat': self.refined_ok = True; return m
        self.refined_ok = False
        return m0
    def witness(self, name, assumptions):
        r, m = self.check(assumptions, [])
        if r == 'sat': self.out['witnesses'] += 1
        elif r == 'unsat': self.out['errors'].append(f'vacuous: assumptions of {name} are unsatisfiable')
        else: self.out['inconclusive'].append('witness ' + name)
        return r == 'sat'
    def twin(self, name, assumptions, mutated_goal):
        """a deliberately wrong goal must be refutable (sat), otherwise the obligation family is vacuous"""
        r, m = self.check(assumptions, [Not(mutated_goal)])
        if r == 'sat': self.out['twins'] += 1
        elif r == 'unsat': self.out['errors'].append(f'vacuity guard: mutated obligation {name} was not refuted')
        else: self.out['inconclusive'].append('twin ' + name)
        return r == 'sat'


def mval(m, t):
    v = m.eval(t, model_completion=True)
    try: return v.as_long()
    except Exception:
        s = str(v)
        return True if s == 'True' else (False if s == 'False' else s)
