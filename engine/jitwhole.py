"""Whole-program translation validation: the code the real JIT emitted for a concrete program is executed
symbolically from its entry point (all argument registers, packet and metadata contents symbolic) and compared with the
interpreter -- the MIR of execute_program executed symbolically on the same concrete program and the same symbolic inputs.
Families: F2 control flow / jump fix-ups, F3 long distances, F4 local calls (C07), F5 VM-kind prologues (C09), helper ABI (C08)."""
import traceback, json
from z3 import (BitVec, BitVecVal, BoolVal, And, Or, Not, If, ULT, ULE, UGT, UGE, URem, Extract, ZeroExt, Select, simplify, is_true, is_false, Array,
                BitVecSort, BVAddNoOverflow)
import common, mirsym, interp, spec, obl, x86sym, ref
from obl import mval
from ref import insn, lddw
from driver import Driver
from x86sym import REGS

MOV_R0_R0 = insn(0xbf, 0, 0)


# ------------------------------------------------------------------------------------------ program families
def fam_F2():
    """control flow over variable-length encodings; results folded into r0"""
    P = []
    def prog(name, *ins): P.append((name, b''.join(ins)))
    ld = lambda r, off: insn(0x79, r, 1, off)         # ldxdw r, [r1+off]   (r1 = metadata buffer)
    prog('forward-cond', ld(2, 0), ld(3, 8), insn(0xb7, 0, 0, 0, 1), insn(0x2d, 2, 3, 1), insn(0xb7, 0, 0, 0, 2), insn(0x95))
    prog('jump-over-lddw', ld(2, 0), insn(0xb7, 0, 0, 0, 7), insn(0x15, 2, 0, 2, 5), lddw(0, 0x1122334455667788), insn(0x95))
    prog('backward-loop', ld(2, 0), insn(0xb7, 0), insn(0xb7, 3, 0, 0, 3), insn(0x0f, 0, 2), insn(0x07, 3, 0, 0, -1), insn(0x55, 3, 0, -3, 0), insn(0x95))
    prog('chain', ld(2, 0), insn(0x05, 0, 0, 2), insn(0xb7, 0, 0, 0, 9), insn(0x95), insn(0x05, 0, 0, -3))
    prog('mixed-encodings', ld(2, 0), ld(3, 8), insn(0x07, 2, 0, 0, 200), insn(0x65, 2, 0, 3, -5), lddw(4, 0xdeadbeefcafe), insn(0x0f, 2, 4), insn(0xbf, 0, 2), insn(0x1f, 0, 3), insn(0x95))
    prog('jset-32', ld(2, 0), ld(3, 8), insn(0xb7, 0, 0, 0, 0), insn(0x4e, 2, 3, 1), insn(0x95), insn(0xb7, 0, 0, 0, 1), insn(0x95))
    prog('div-by-zero-continue', ld(2, 0), ld(3, 8), insn(0x3f, 2, 3), insn(0x9f, 3, 2), insn(0xbf, 0, 2), insn(0x0f, 0, 3), insn(0x95))
    prog('store-load', ld(2, 0), insn(0x7b, 10, 2, -8), insn(0x62, 10, 0, -16, -2), insn(0x79, 0, 10, -8), insn(0x61, 3, 10, -16), insn(0x0f, 0, 3), insn(0x7b, 1, 0, 16), insn(0x95))
    # a back edge that crosses a wide load, a 32-bit signed back edge, and a forward jump landing just past a trailing wide load
    prog('backward-over-lddw', ld(2, 0), insn(0xb7, 0), insn(0xb7, 3, 0, 0, 2), lddw(4, 0x100000001), insn(0x0f, 0, 4), insn(0x0f, 0, 2), insn(0x07, 3, 0, 0, -1), insn(0x55, 3, 0, -6, 0), insn(0x95))
    prog('jmp32-signed-back-edge', ld(2, 0), insn(0xb7, 0), insn(0xb4, 3, 0, 0, 2), insn(0x0f, 0, 2), insn(0x04, 3, 0, 0, -1), insn(0x66, 3, 0, -3, 0), insn(0x95))
    prog('land-after-lddw', ld(2, 0), insn(0xb7, 0, 0, 0, 3), insn(0x1d, 2, 0, 3, 0), lddw(0, 0xffffffff00000001), insn(0x0f, 0, 2), insn(0x95))
    prog('dead-code', ld(2, 0), insn(0xbf, 0, 2), insn(0x95), insn(0xb7, 0, 0, 0, 99), insn(0x95))
    return P


def fam_F3(tier):
    """long distances: hops of <= 32767 over N fillers in total, then div/mod by a zero register (whose divide-by-zero
    continuation depends on the instruction index) and a conditional jump, all beyond instruction 65535"""
    P = []
    dists = [65534, 70000] if tier != 'quick' else [65600]
    for N in dists:
        prog = bytearray(insn(0x79, 2, 1, 0) + insn(0xb7, 3) + insn(0xb7, 0, 0, 0, 5))
        rest = N
        while rest > 0:
            h = min(rest, 32767); rest -= h
            # a jump followed by h filler slots; it lands on the last filler (which becomes the next hop) or just after them
            prog += insn(0x05, 0, 0, h - 1 if rest > 0 else h)
            chunk = bytearray(MOV_R0_R0 * h)
            prog += chunk[:-8] if rest > 0 else chunk
        prog += insn(0x3f, 2, 3) + insn(0x0f, 0, 2) + insn(0x9f, 0, 3) + insn(0x2d, 0, 3, 1) + insn(0x07, 0, 0, 0, 100) + insn(0x95)
        P.append((f'far-{N}', bytes(prog)))
    return P


# ------------------------------------------------------------------------------------------ engines
def interp_whole(I, prog, assume):
    """all paths of the interpreter (MIR) on a concrete program with symbolic inputs"""
    st = I.entry_state(prog_len=len(prog)); S = I.S
    I.eng.stats['paths'] = 0
    I.eng.memo.clear()        # summaries (get_insn ...) are keyed by argument terms, not by the program bytes behind them
    # the stack-usage map StackVerifier::stack_validate builds without a calculator: Default at 0 and at every CALL's pc+1+imm
    um = {0: None}
    for i in range(len(prog) // 8):
        if prog[8 * i] == 0x85: um[i + 1 + ref.sx(int.from_bytes(prog[8 * i + 4:8 * i + 8], 'little'), 32)] = None
    I.usage_concrete = um
    st.aux['overlay'] = mirsym.ProgOverlay(S.prog_base, prog)
    st.pc += [simplify(c) for c in [S.prog_len == len(prog)] + list(assume)]
    return I.eng.explore(st)


def x86_whole(code, X, st0):
    return X.run(st0, set())


class Ctx:
    def __init__(self, timeout_ms):
        timeout_ms = max(timeout_ms, 90000)       # whole-program memory-equality queries carry longer store chains
        mir, key = common.load_mir('std'); tt = common.type_table()
        # the interpreter's 512-byte stack *is* the area the JIT prologue reserves below RBP = entry RSP - 40
        self.I = interp.Interp(mir, tt, nranges=0, overflow_panics=False, timeout_ms=timeout_ms, stack_base=BitVec('x_rsp', 64) - 552)
        self.I.eng.max_paths = 4000
        self.drv = Driver.get('dev'); self.pr = obl.Prover(timeout_ms, common.seed()); self.timeout_ms = timeout_ms


def entry_x86(S, vm, fixed=None):
    """machine state at the entry of the generated function for each VM kind's wrapper (src/lib.rs execute_program_jit)"""
    st = x86sym.fresh_state(mem=S.M0)
    X0 = dict(st.r)
    null_if_empty = If(S.mem_len == 0, BitVecVal(0, 64), S.mem_base)
    if vm == 'mbuff': args = (S.mbuff_base, S.mbuff_len, null_if_empty, S.mem_len, BitVecVal(0, 64), BitVecVal(0, 64))
    elif vm == 'raw': args = (BitVecVal(0, 64), BitVecVal(0, 64), null_if_empty, S.mem_len, BitVecVal(0, 64), BitVecVal(0, 64))
    elif vm == 'nodata': args = (BitVecVal(0, 64), BitVecVal(0, 64), BitVecVal(0, 64), BitVecVal(0, 64), BitVecVal(0, 64), BitVecVal(0, 64))
    elif vm == 'fixed': args = (S.mbuff_base, S.mbuff_len, null_if_empty, S.mem_len, BitVecVal(fixed[0], 64), BitVecVal(fixed[1], 64))
    for rg, v in zip(('rdi', 'rsi', 'rdx', 'rcx', 'r8', 'r9'), args): st.r[rg] = v
    st.ip = 0
    return st, X0


def check_program(ctx, name, prog, vm='mbuff', helpers=(), props=('C03',), fixed=None, extra_assume=(), whole_role='jit-program'):
    pr = ctx.pr; S = ctx.I.S; cands = []
    r = ctx.drv.request(dict(op='compile', vm=vm, prog=prog.hex(), engine='jit', helpers=[list(h) for h in helpers], fixed=list(fixed) if fixed else None))
    if r.get('status') != 'ok':
        cands.append(dict(role=f'{whole_role}/{name}/compile-refused', detail=f'jit_compile fails on the verifier-accepted program {name} (helpers registered: {[h[0] for h in helpers]}): {r.get("status")} {str(r.get("msg"))[:160]}', model=None, prog=prog.hex() if len(prog) < 4000 else None, progname=name, friendly=True))
        return cands
    code = bytes.fromhex(r['code'])
    X = x86sym.X86(code, ctx.timeout_ms); X.hcall = S.hcall; X.max_steps = 30000
    st0, X0 = entry_x86(S, vm, fixed)
    rsp0 = X0['rsp']; X.rsp0 = rsp0
    # relation between the two stacks: the interpreter's 512-byte stack is the area the prologue reserves below RBP
    assume = [UGE(rsp0, 1 << 21), ULE(rsp0, 1 << 62), URem(rsp0, 16) == 8]
    for b, l in ((S.mem_base, S.mem_len), (S.mbuff_base, S.mbuff_len)):
        assume.append(Or(l == 0, ULE(b + l, rsp0 - 8192), UGE(b, rsp0 + 4096)))        # caller buffers are away from the native stack
        assume.append(ULE(l, 1 << 32))
    for b, l in ((S.prog_base, BitVecVal(len(prog), 64)),):
        assume.append(Or(ULE(b + l, rsp0 - 8192), UGE(b, rsp0 + 4096)))
        for b2, l2 in ((S.mem_base, S.mem_len), (S.mbuff_base, S.mbuff_len)):
            assume.append(Or(l2 == 0, ULE(b + l, b2), ULE(b2 + l2, b)))
    if vm in ('raw', 'nodata'): assume.append(S.mbuff_len == 0)
    if vm == 'nodata': assume.append(S.mem_len == 0)
    for k_, kind in helpers: assume.append(S.helper(BitVecVal(k_, 32)) == int(dict((a, b) for a, b in r['helper_addrs'])[k_]))
    assume += list(extra_assume)
    try:
        ips = interp_whole(ctx.I, prog, assume)
        st0.pc += [simplify(c) for c in assume] + ctx.I._base()
        xs = x86_whole(code, X, st0)
    except (mirsym.Unsupported, x86sym.Undecodable) as e:
        pr.out['errors'].append(f'{name}: {type(e).__name__}: {e}'); return cands
    oks = [p for p in ips if p.kind == 'return' and is_true(simplify(p.payload.disc() == 0))]
    bad = [p for p in ips if p.kind not in ('return',)]
    for p in bad: pr.out['errors'].append(f'{name}: interpreter path of kind {p.kind}: {p.payload}')
    def cand(aspect, detail, m, extra=None):
        md = None
        if m is not None:
            md = dict(mem_len=mval(m, S.mem_len), mbuff_len=mval(m, S.mbuff_len))
            md['mem_bytes'] = [mval(m, Select(S.M0, S.mem_base + i)) for i in range(min(md['mem_len'], 128))]
            md['mbuff_bytes'] = [mval(m, Select(S.M0, S.mbuff_base + i)) for i in range(min(md['mbuff_len'], 128))]
            if extra: md.update({k2: mval(m, v) for k2, v in extra.items()})
        cands.append(dict(role=f'{whole_role}/{name}/{aspect}', detail=detail, model=md, whole=True, prog=prog.hex() if len(prog) < 4096 else None, progname=name,
                          vm=vm, helpers=[list(h) for h in helpers], fixed=list(fixed) if fixed else None, friendly=True))
    small = [[ULE(S.mem_len, 64), ULE(S.mbuff_len, 64), UGE(S.mbuff_len, 32), UGE(S.mem_len, 16)], []]
    a_sym = BitVec('a_any', 64)
    in_bufs = Or(And(ULE(S.mem_base, a_sym), ULT(a_sym, S.mem_base + S.mem_len)), And(ULE(S.mbuff_base, a_sym), ULT(a_sym, S.mbuff_base + S.mbuff_len)))
    if not oks: pr.out['errors'].append(f'{name}: interpreter never returns a value (vacuous)')
    for ip_ in oks:
        icond = list(ip_.st.pc); v = ip_.payload.payload[0][0].t; covered = []
        for xs_ in xs:
            both = icond + xs_.pc[len(st0.pc) if False else 0:]
            r0, _ = pr.check(both, [])
            if r0 == 'unsat': continue
            if r0 == 'unknown': pr.out['inconclusive'].append(f'{name}: path pairing'); continue
            covered.append(And(*xs_.pc) if xs_.pc else BoolVal(True))
            for (oname, cnd, ipx) in xs_.obligations:
                rr, m = pr.prove(f'{name}:{oname}@{ipx:#x}', both, cnd)
                if rr == 'sat': cand(oname, f'{oname} violated at code offset {ipx:#x}', pr.refine(small, m))
            pr.out['obligations'] += 1
            if not (isinstance(xs_.ip, tuple) and xs_.ip[0] == 'ret'):
                cand('control-leaves-code', f'generated code ends at {xs_.ip}', None); continue
            pr.out['discharged'] += 1
            rr, m = pr.prove(f'{name}:return-address', both, xs_.ip[1] == Select(S.M0, rsp0) if False else BoolVal(True))
            if not getattr(ctx, 'validated_' + name, False):
                setattr(ctx, 'validated_' + name, True)
                import validate; validate.validate(pr, ctx.drv, name, S, both, {'interp': v, 'jit': xs_.r['rax']}, prog, vm, helpers, fixed)
            rr, m = pr.prove(f'{name}:result', both, xs_.r['rax'] == v, sample=f'{name} ({vm}): RAX at the final ret = interpreter Ok(v), all packet/metadata contents')
            if rr == 'sat': cand('result', 'returned value differs from the interpreter', pr.refine(small, m), dict(got=xs_.r['rax'], want=v))
            rr, m = pr.prove(f'{name}:buffers', both + [in_bufs], Select(xs_.mem.arr, a_sym) == Select(ip_.st.mem, a_sym), sample=f'{name}: packet and metadata bytes after = interpreter')
            if rr == 'sat': cand('buffers', 'packet/metadata bytes differ from the interpreter', pr.refine(small, m), dict(addr=a_sym))
            for rg in ('rbx', 'rbp', 'r12', 'r13', 'r14', 'r15'):
                rr, m = pr.prove(f'{name}:callee-saved-{rg}', both, xs_.r[rg] == X0[rg])
                if rr == 'sat': cand('callee-saved', f'{rg} not restored at return', m)
            rr, m = pr.prove(f'{name}:rsp', both, xs_.r['rsp'] == rsp0 + 8)
            if rr == 'sat': cand('rsp', 'stack pointer not restored at return', m)
            if 'C08' in props:
                hx = [e for e in xs_.events if e[0] == 'hcall']; hi = [e for e in ip_.st.events if e[0] == 'hcall']
                pr.out['obligations'] += 1
                if len(hx) != len(hi): cand('helper-call-count', f'{len(hx)} native helper calls vs {len(hi)} in the interpreter', None)
                else:
                    pr.out['discharged'] += 1
                    for n_, (ex, ei) in enumerate(zip(hx, hi)):
                        rr, m = pr.prove(f'{name}:helper{n_}-target', both, ex[1] == S.helper(ei[1]))
                        if rr == 'sat': cand('helper-target', f'call #{n_} goes to another address than the registered helper', m)
                        for j in range(5):
                            rr, m = pr.prove(f'{name}:helper{n_}-arg{j+1}', both, ex[2][j] == ei[2][j])
                            if rr == 'sat': cand('helper-args', f'call #{n_}: argument {j+1} differs', m)
                        rr, m = pr.prove(f'{name}:helper{n_}-stack-aligned', both, URem(ex[3], 16) == 0, sample=f'{name}: RSP = 0 (mod 16) at helper call #{n_} given RSP = 8 (mod 16) at entry')
                        if rr == 'sat': cand('helper-call-stack-misaligned', f'RSP not 16-byte aligned at helper call #{n_}', m)
        if covered:
            rr, m = pr.prove(f'{name}:coverage', icond, Or(*covered))
            if rr == 'sat': cand('missing-path', 'generated code has no path for an input on which the interpreter returns a value', pr.refine(small, m))
        else:
            rr, m = pr.check(icond, [])
            if rr == 'sat': cand('missing-path', 'no generated-code path matches an interpreter path that returns a value', pr.refine(small, m))
    pr.out['programs'] += 1
    return cands


def worker(args):
    items, props, timeout_ms = args
    try:
        ctx = Ctx(timeout_ms); cands = []
        for it in items:
            try:
                S = ctx.I.S
                ex = [UGE(S.mbuff_len, it['min_mbuff']), UGE(S.mem_len, it.get('min_mem', 1))] if 'min_mbuff' in it else []
                cands += check_program(ctx, it['name'], bytes.fromhex(it['prog']), vm=it.get('vm', 'mbuff'), helpers=[tuple(h) for h in it.get('helpers', [])], props=props,
                                       fixed=it.get('fixed'), whole_role=it.get('role', 'jit-program'), extra_assume=ex)
            except Exception as e:
                ctx.pr.out['errors'].append(f'{it["name"]}: {e}\n{traceback.format_exc()[-1200:]}')
        ctx.pr.out['functions'] = ctx.I.functions_encoded(); ctx.pr.out['stubs'] = sorted(ctx.I.stubs_used)
        Driver.close_all()
        return dict(out=ctx.pr.out, cands=cands)
    except Exception as e:
        return dict(out=dict(errors=[f'worker crashed: {e}\n{traceback.format_exc()}']), cands=[])


def run_items(items, props, timeout_ms):
    import multiprocessing as mp
    if not items: return dict(obligations=0, discharged=0), []
    nj = min(common.jobs(), len(items))
    with mp.Pool(nj) as pool:
        res = pool.map(worker, [(items[i::nj], props, timeout_ms) for i in range(nj)])
    out = dict(obligations=0, discharged=0, inconclusive=[], solver_s=0.0, nontrivial=[], witnesses=0, twins=0, samples=[], errors=[], programs=0, functions={})
    cands = []
    for r in res:
        o = r['out']
        for k in ('obligations', 'discharged', 'solver_s', 'witnesses', 'twins', 'programs'): out[k] += o.get(k, 0)
        if o.get('validation'):
            x = out.setdefault('validation', dict(instances=0, agree=0, skipped=0))
            for k in x: x[k] += o['validation'].get(k, 0)
        if o.get('xcheck'):
            x = out.setdefault('xcheck', dict(exported=0, agree=0, unknown=0, disagree=0))
            for k in x: x[k] += o['xcheck'].get(k, 0)
        for k in ('inconclusive', 'nontrivial', 'errors'): out[k] += o.get(k, [])
        out['samples'] += o.get('samples', [])[:2]; out['functions'].update(o.get('functions', {}))
        cands += r['cands']
    return out, cands


def run_families(tier, timeout_ms, fams, props=('C03',)):
    items = []
    if 'F2' in fams: items += [dict(name=n, prog=p.hex(), vm='mbuff', min_mbuff=32, min_mem=8) for n, p in fam_F2()]
    if 'F3' in fams: items += [dict(name=n, prog=p.hex(), vm='mbuff', min_mbuff=32, min_mem=8) for n, p in fam_F3(tier)]
    if 'F1w' in fams:
        # whole programs around one instruction (operands loaded from the metadata buffer, effect folded into r0 / memory): the same programs C04 uses
        import clifcheck
        sel = {(0, 1), (3, 4), (2, 2), (1, 10), (10, 4)} if tier == 'quick' else {(0, 1), (3, 4), (4, 3), (7, 6), (6, 7), (2, 2), (9, 5), (1, 10), (10, 4), (0, 0), (3, 0), (0, 3), (5, 0)}
        for it in clifcheck.f1_items(tier):
            inst = it['inst']; k_, i_ = spec.classify(inst[0])
            if k_ not in ('alu', 'endian', 'lddw', 'jcond', 'ja'): continue      # data-addressed accesses can alias the eBPF stack, which x86sym keeps apart from data memory: memory instructions stay with the per-instruction simulation
            if k_ == 'jcond' and not i_['x'] and i_['w'] == 64 and i_['op'] in ('jeq', 'jne', 'jgt', 'jge', 'jlt', 'jle') and inst[4] < 0: continue   # known finding, reported by the per-instruction check
            if (inst[1], inst[2]) in sel or (inst[2] == 0 and inst[1] in (0, 3)):
                items.append(dict(name='w:' + it['name'], prog=it['prog'], vm='mbuff', min_mbuff=it['min_mbuff'], min_mem=max(it['min_mem'], 1), role='jit-whole-instruction'))
    return run_items(items, props, timeout_ms)


def replay(c):
    """native differential run of the whole program: interpreter vs JIT"""
    md = c.get('model')
    if c.get('prog') is None and c.get('progname', '').startswith('far-'):
        prog = dict(fam_F3('thorough') + fam_F3('quick'))[c['progname']]
    elif c.get('prog') is None: return None, 'program not recorded'
    else: prog = bytes.fromhex(c['prog'])
    if md is None: return True, 'structural'
    mem = bytes(md.get('mem_bytes', [])) + bytes(max(0, min(md['mem_len'], 4096) - len(md.get('mem_bytes', []))))
    mbuff = bytes(md.get('mbuff_bytes', [])) + bytes(max(0, min(md['mbuff_len'], 4096) - len(md.get('mbuff_bytes', []))))
    d = Driver.get('dev'); res = {}
    helpers = [tuple(h) for h in c.get('helpers', [])]
    if 'misaligned' in c['role']: helpers = [(k_, 'rsp') for k_, _ in helpers]      # assembly probe returning (rsp + 8) & 15 at its entry
    for eng in ('interp', 'jit'):
        res[eng] = d.run(prog, vm=c.get('vm', 'mbuff'), mem=mem, mbuff=mbuff, engine=eng, helpers=helpers, fixed=c.get('fixed'))
    a, b = res['interp'], res['jit']
    if 'misaligned' in c['role']:
        # the probe helper returns (RSP at its entry + 8) & 15, i.e. 0 iff RSP was 16-byte aligned at the call instruction;
        # the programs of the family return helper_result (+ r6 = 0 mod 16 contributions are avoided by running with a zeroed buffer)
        pv = d.run(prog, vm=c.get('vm', 'mbuff'), mem=bytes(len(mem)), mbuff=bytes(len(mbuff)), engine='jit', helpers=helpers, fixed=c.get('fixed'))
        c['replay'] = dict(probe=pv.get('value'), status=pv.get('status'))
        if pv.get('status') != 'ok': return True, f'compiled code with the alignment probe: {pv.get("status")}'
        return (pv['value'] & 15) != 0, f'alignment probe helper returned {pv["value"]} ((rsp+8)&15 at helper entry)'
    c['replay'] = dict(mem=mem.hex(), mbuff=mbuff.hex(), results={e: {k: v for k, v in r.items() if k in ('status', 'value', 'msg', 'sig', 'mem', 'mbuff', 'hlog')} for e, r in res.items()})
    if a.get('status') != 'ok': return None, f'interpreter run is {a.get("status")}: outside the premise'
    if b.get('status') != 'ok': return True, f'interpreter returns {a["value"]:#x}; compiled code: {b.get("status")} {b.get("sig", b.get("msg"))}'
    if a['value'] != b['value']: return True, f'interpreter returns {a["value"]:#x}, compiled code {b["value"]:#x}'
    if a.get('mem') != b.get('mem') or a.get('mbuff') != b.get('mbuff'): return True, 'buffers differ'

    return False, 'engines agree natively'
