"""Whole-program translation validation of JIT output (placeholder: families are added below)."""
def run_families(tier, timeout_ms, fams):
    return dict(obligations=0, discharged=0), []
def replay(c):
    return None, 'not implemented'
