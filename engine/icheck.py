"""Obligations over the interpreter's extracted one-step transition relation (C01, C02, C05, C07, C08, C18)."""
import sys, os, time, json, traceback
from z3 import (BitVecVal, BoolVal, And, Or, Not, If, Implies, ULT, ULE, UGT, UGE, URem, Extract, ZeroExt, SignExt, simplify,
                is_true, is_false)
import common, mirsym, interp, spec, obl
from obl import mval

DATA_KINDS = ('read', 'write', 'atomic-read', 'atomic-write')
WRITE_KINDS = ('write', 'atomic-write')


def nslots(P): return P.prog_len / 8      # prog_len is a multiple of 8 (assumed), unsigned division by a constant


def wf_local(P, opc):
    """what C06's statement guarantees about the instruction at pc of an accepted program (python-level on opc)."""
    k, i = spec.classify(opc)
    n = nslots(P); a = []
    a.append(ULT(P.pc, n))
    a.append(ULE(P.src, 10))
    store_cls = (opc & 7) in (spec.CLS_ST, spec.CLS_STX)
    a.append(ULE(P.dst, 10) if store_cls else ULE(P.dst, 9))
    if k == 'endian': a.append(Or(P.imm == 16, P.imm == 32, P.imm == 64))
    if k == 'lddw': a += [ULT(P.pc + 1, n), P.nopc == 0]
    if k in ('ja', 'jcond'):
        tgt = P.pc + 1 + SignExt(48, P.off)          # pc < 10^6, so no 64-bit wrap in the mathematical sense:
        a += [P.off != 0xffff, ULT(tgt, n)]          # 0 <= pc+1+off < n  (negative results wrap above n)
    if k == 'call':
        a.append(Or(P.src == 0, P.src == 1))
        tgt = P.pc + 1 + SignExt(32, P.imm)
        a.append(Implies(P.src == 1, ULT(tgt, n)))
    if k == 'xadd': a.append(P.imm == 0)
    if k not in ('exit', 'ja'): a.append(ULT(P.pc + 1, n))     # the last instruction is an exit or an unconditional jump
    return a


def cur_usage(P):
    """frame-size record of the running function after the per-instruction refresh (mechanism of src/interpreter.rs:122)"""
    def at(i):
        d, v = P.frames[i][2]; return d, v
    d = at(7)[0]; v = at(7)[1]
    for i in range(6, -1, -1): d = If(P.sfi == i, at(i)[0], d); v = If(P.sfi == i, at(i)[1], v)
    newd = If(P.usage_custom(P.pc), BitVecVal(1, 64), BitVecVal(0, 64)); newv = P.usage_val(P.pc)
    upd = And(ULT(P.sfi, 8), P.usage_some(P.pc))
    return If(upd, newd, d), If(upd, newv, v), upd, newd, newv


def spec_frames(P):
    """frames after the per-instruction refresh of frames[sfi].usage"""
    _, _, upd, newd, newv = cur_usage(P)
    out = []
    for i, (ra, sv, (d, v)) in enumerate(P.frames):
        c = And(upd, P.sfi == i)
        out.append((ra, list(sv), (If(c, newd, d), If(c, newv, v))))
    return out


def frames_eq(A, B):
    cs = []
    for (ra, sv, (d, v)), (rb, sw, (e, w)) in zip(A, B):
        cs.append(ra == rb); cs += [x == y for x, y in zip(sv, sw)]
        cs.append(d == e); cs.append(Or(d == 0, v == w))
    return cs


def model_dict(m, P, extra=None):
    d = dict(regs=[mval(m, r) for r in P.regs], pc=mval(m, P.pc), opc=mval(m, P.opc), dst=mval(m, P.dst), src=mval(m, P.src),
             off=mval(m, P.off), imm=mval(m, P.imm), next_imm=mval(m, P.next_imm), nopc=mval(m, P.nopc), sfi=mval(m, P.sfi),
             prog_len=mval(m, P.prog_len), prog_base=mval(m, P.prog_base), mem_base=mval(m, P.mem_base), mem_len=mval(m, P.mem_len),
             mbuff_base=mval(m, P.mbuff_base), mbuff_len=mval(m, P.mbuff_len), stack_base=mval(m, P.stack_base),
             ranges=[[mval(m, p), mval(m, lo), mval(m, hi)] for p, lo, hi in P.ranges], regbyte=mval(m, P.regbyte),
             nregbyte=mval(m, P.nregbyte), noff=mval(m, P.noff))
    from z3 import Select
    ml = min(d['mem_len'], 256); bl = min(d['mbuff_len'], 256)
    d['mem_bytes'] = [mval(m, Select(P.M0, P.mem_base + i)) for i in range(ml)]
    d['mbuff_bytes'] = [mval(m, Select(P.M0, P.mbuff_base + i)) for i in range(bl)]
    d['range_bytes'] = [[mval(m, Select(P.M0, lo + i)) for i in range(min(max(d['ranges'][j][2] - d['ranges'][j][1], 0), 64))] for j, (p, lo, hi) in enumerate(P.ranges)]
    if extra:
        for k, t in extra.items(): d[k] = mval(m, t)
    return d


def friendly_tiers(P, k):
    """preferences that make a counterexample easy to replay as a whole program (never part of a verdict)"""
    from z3 import BitVecVal as BV
    bases = [P.mem_base == 0x100000000000, P.mbuff_base == 0x200000000000, P.stack_base == 0x300000000000, P.prog_base == 0x400000000000]
    small = [ULE(P.mem_len, 64), ULE(P.mbuff_len, 64), UGE(P.mem_len, 16), UGE(P.mbuff_len, 16)]
    rg = []
    for i, (p, lo, hi) in enumerate(P.ranges):
        rg += [lo == 0x500000000000 + 0x1000 * i, ULE(hi - lo, 48)]
    fwd = [P.off >= 0] if k in ('ja', 'jcond') else []       # forward jumps (signed)
    t1 = bases + small + rg + fwd + [P.sfi == 0, UGE(P.pc, 32), ULT(P.pc, 200), ULE(P.prog_len, 8 * 400)]
    t2 = bases + small + rg + fwd + [P.sfi == 0, UGE(P.pc, 32), ULE(P.prog_len, 8 * 70000)]
    t3 = bases + small + fwd + [P.sfi == 0, UGE(P.pc, 32)]
    t4 = bases + [P.sfi == 0, UGE(P.pc, 32)]
    t5 = [P.sfi == 0]
    return [t1, t2, t3, t4, t5]


def depth_tiers(P, k):
    """for a counterexample that exists only at call depth > 0 (no friendly_tiers model): replay-friendly placement behind `depth` local calls"""
    bases = [P.mem_base == 0x100000000000, P.mbuff_base == 0x200000000000, P.stack_base == 0x300000000000, P.prog_base == 0x400000000000]
    small = [ULE(P.mem_len, 64), ULE(P.mbuff_len, 64), UGE(P.mem_len, 16), UGE(P.mbuff_len, 16)]
    fwd = [P.off >= 0] if k in ('ja', 'jcond') else []
    return [bases + small + fwd + [UGT(P.sfi, 0), UGE(P.pc, 48), ULT(P.pc, 200), ULE(P.prog_len, 8 * 400)]]


def short(msg):
    msg = msg.replace('`{}`', 'x').replace('{}', 'x')
    return msg[:60]


def check_opcode(I, opc, props, pr, profile='dev'):
    """explore the arm of one opcode and discharge the obligations of the requested properties. Returns candidates."""
    cands = []
    name = spec.opname(opc); k, info = spec.classify(opc)
    st, P = I.make_pre(opc)
    wf = wf_local(P, opc)
    st.pc += [simplify(c) for c in wf]
    if 'C01' in props or 'C07' in props or 'C08' in props:
        # outside the value claims: unregistered helper / call depth exceeded are the documented error cases
        pass
    paths = I.step_paths(st)
    O = spec.step(opc, P)
    base = list(st.pc[:0])
    S_frames = spec_frames(P)
    refined = set()
    def cand(role, detail, m, extra=None, path=None):
        friendly = True
        if m is not None and role not in refined:
            m = pr.refine(friendly_tiers(P, k), m); friendly = pr.refined_ok
            if friendly: refined.add(role)
        elif m is not None and role in refined: return     # one counterexample per role and opcode is enough
        c = dict(role=role, detail=detail, opcode=opc, profile=profile, model=model_dict(m, P, extra) if m is not None else None)
        if path is not None: c['path_kind'] = path.kind
        c['friendly'] = friendly
        cands.append(c)
    npaths = dict(cut=0, ret_ok=0, ret_err=0, panic=0, other=0)
    acc_ok = None; err_if = BoolVal(False)
    if O.access is not None:
        acc_ok = spec.access_ok(P, O.access[0], O.access[1]); err_if = O.error_if
    for p in paths:
        Q = I.post(p); pc_ = list(p.st.pc)
        if p.kind == 'panic':
            npaths['panic'] += 1
            msg, fn, bb = p.payload
            role = f'interp/{name}/panic:{short(msg)}'
            if 'C01' in props or 'C05' in props:
                # a panic path that is feasible for a well-formed instruction: violation (path feasibility = obligation)
                r, m = pr.prove(f'{name}:no-panic:{short(msg)}@{bb}', pc_, BoolVal(False), sample=None)
                if r == 'sat': cand(role, f'panic reachable in {fn} {bb}: {msg}', m, path=p)
            if 'C02' in props and O.access is not None:
                r, m = pr.prove(f'{name}:refusal-no-panic:{short(msg)}@{bb}', pc_, BoolVal(False))
                if r == 'sat': cand(f'interp/{name}/access-panics:{short(msg)}', f'panic instead of Ok/Err in {fn} {bb}: {msg}', m, dict(addr=O.access[0]), path=p)
            continue
        if p.kind in ('ub-unreachable', 'diverge'):
            npaths['other'] += 1
            r, m = pr.prove(f'{name}:{p.kind}', pc_, BoolVal(False))
            if r == 'sat': cand(f'interp/{name}/{p.kind}', str(p.payload), m, path=p)
            continue
        if p.kind == 'return':
            res = p.payload; d = simplify(res.disc())
            is_ok = is_true(simplify(d == 0)); is_err = is_true(simplify(d == 1))
            if not (is_ok or is_err): raise mirsym.Unsupported(f'return discriminant not concrete: {d}')
            npaths['ret_ok' if is_ok else 'ret_err'] += 1
            data = [e for e in Q.log if e[0] in DATA_KINDS]; writes = [e for e in Q.log if e[0] in WRITE_KINDS]
            if is_ok:
                if 'C01' in props:
                    if k != 'exit':
                        r, m = pr.prove(f'{name}:no-early-return', pc_, BoolVal(False))
                        if r == 'sat': cand(f'interp/{name}/returns-without-exit', 'program returned on a non-exit instruction', m, path=p)
                    else:
                        r, m = pr.prove(f'{name}:return-value', pc_, And(res.payload[0][0].t == P.regs[0], P.sfi == 0), sample=f'{name}: Return(Ok v) => v = r0 and depth = 0')
                        if r == 'sat': cand(f'interp/{name}/return-value', 'exit returned something else than r0 / at depth > 0', m, path=p)
                        r, m = pr.prove(f'{name}:return-mem', pc_, Q.M == P.M)
                        if r == 'sat': cand(f'interp/{name}/return-mem', 'exit changed memory', m, path=p)
                continue
            # ---- Err paths
            if 'C01' in props:
                # an error is prescribed only for: refused access, misaligned atomic add, unregistered helper, depth exceeded, tail call
                allowed = BoolVal(False)
                if O.access is not None: allowed = Or(Not(acc_ok), err_if)
                if k == 'call': allowed = Or(And(P.src == 0, Not(P.registered(P.imm))), And(P.src == 1, UGE(P.sfi, 8)))
                if k == 'tail_call': allowed = BoolVal(True)
                r, m = pr.prove(f'{name}:err-only-when-prescribed', pc_, allowed, sample=f'{name}: Return(Err) only if the access is refused / helper unknown / depth exceeded')
                if r == 'sat': cand(f'interp/{name}/unexpected-error', 'interpreter returns Err where the semantics prescribe a value', m, dict(addr=O.access[0]) if O.access else None, path=p)
            if 'C02' in props and O.access is not None:
                r, m = pr.prove(f'{name}:inbounds-not-refused', pc_, Or(Not(acc_ok), err_if), sample=f'{name}: access inside one region is never refused (addr = {O.access[2]} of {O.access[1]} bytes)')
                if r == 'sat': cand(f'interp/{name}/in-bounds-access-refused', f'{O.access[1]}-byte {O.access[2]} wholly inside a region is refused', m, dict(addr=O.access[0]), path=p)
                pr.out['obligations'] += 1
                if writes: cand(f'interp/{name}/refused-access-writes', 'memory written on a path that returns Err', None, path=p)
                else: pr.out['discharged'] += 1
            if 'C18' in props and k == 'xadd':
                pr.out['obligations'] += 1
                if writes: cand(f'interp/{name}/misaligned-writes', 'memory written on an Err path', None, path=p)
                else: pr.out['discharged'] += 1
            if 'C08' in props and k == 'call':
                pr.out['obligations'] += 1
                if any(e[0] == 'hcall' for e in Q.events): cand(f'interp/{name}/error-after-helper-ran', 'a helper was invoked on a path that returns an error', None, path=p)
                else: pr.out['discharged'] += 1
                r, m = pr.prove(f'{name}:unregistered-id-is-an-error', pc_, Or(And(P.src == 0, Not(P.registered(P.imm))), And(P.src == 1, UGE(P.sfi, 8))), sample='call: Err exactly for an unregistered id (src 0) or depth 8 (src 1); nothing is executed')
                if r == 'sat': cand(f'interp/{name}/unexpected-error', 'error on a registered helper / shallow local call', m, path=p)
            continue
        if p.kind != 'cut': raise mirsym.Unsupported('path kind ' + p.kind)
        npaths['cut'] += 1
        data = [e for e in Q.log if e[0] in DATA_KINDS]
        # ------------------------------------------------ C02 on continuing paths
        if 'C02' in props and O.access is not None:
            for (kind, addr, n) in data:
                r, m = pr.prove(f'{name}:access-in-region:{kind}', pc_, spec.access_ok(P, addr, n), sample=f'{name}: performed {kind} of {n} bytes lies inside packet/metadata/stack/registered range')
                if r == 'sat': cand(f'interp/{name}/out-of-region-{"store" if kind in WRITE_KINDS else "load"}', f'{n}-byte {kind} performed outside every region', m, dict(addr=addr), path=p)
            want = 2 if k == 'xadd' else 1
            pr.out['obligations'] += 1
            if len(data) != want: cand(f'interp/{name}/access-count', f'{len(data)} data accesses logged, expected {want}', None, path=p)
            else: pr.out['discharged'] += 1
            for (kind, addr, n) in data:
                r, m = pr.prove(f'{name}:effective-address:{kind}', pc_, And(addr == O.access[0], n == O.access[1]) if not isinstance(n, int) else (addr == O.access[0] if n == O.access[1] else BoolVal(False)))
                if r == 'sat': cand(f'interp/{name}/effective-address', 'access at an address/width other than reg+sext(off) resp. packet+imm[+src]', m, dict(addr=addr, spec_addr=O.access[0]), path=p)
            r, m = pr.prove(f'{name}:misaligned-or-refused-does-not-continue', pc_, And(acc_ok, Not(err_if)))
            if r == 'sat': cand(f'interp/{name}/refusable-access-performed', 'execution continues although the access must be refused', m, dict(addr=O.access[0]), path=p)
        # ------------------------------------------------ C01 on continuing paths
        if 'C01' in props:
            assume = list(pc_)
            if O.access is not None: assume += [acc_ok, Not(err_if)]
            if k in ('call', 'exit', 'tail_call'):
                exp_regs, exp_pc, exp_M, exp_sfi, exp_frames = call_exit_spec(P, k, S_frames)
            else:
                exp_regs, exp_pc, exp_M, exp_sfi, exp_frames = O.regs, O.pc, O.M, P.sfi, S_frames
            for i in range(11):
                r, m = pr.prove(f'{name}:r{i}', assume, Q.regs[i] == exp_regs[i], sample=f'{name}: r{i}\' = SPEC for all dst/src/imm/off/operands' if i == 0 else None)
                if r == 'sat': cand(f'interp/{name}/reg-value', f'r{i} differs from the ISA value', m, dict(got=Q.regs[i], want=exp_regs[i], reg=BitVecVal(i, 8)), path=p)
            splits = [('', [])]
            if k == 'jcond' and not info['x'] and info['w'] == 64 and info['op'] in ('jeq', 'jne', 'jgt', 'jge', 'jlt', 'jle'):
                # the two immediate classes are separate obligations so that a finding in one cannot hide the other
                splits = [('', [P.imm >= 0]), (':negative-imm-in-unsigned-64bit-compare', [P.imm < 0])]
            for suffix, extra_a in splits:
                r, m = pr.prove(f'{name}:pc{suffix}', assume + extra_a, Q.pc == exp_pc, sample=f'{name}: pc\' = SPEC (pc+1, pc+2 after lddw, pc+1+off if taken)')
                if r == 'sat': cand(f'interp/{name}/pc-value{suffix}', 'next pc differs from the ISA value', m, dict(got=Q.pc, want=exp_pc), path=p)
            r, m = pr.prove(f'{name}:mem', assume, Q.M == exp_M, sample=f'{name}: memory\' = SPEC (same stores, same bytes)' if O.access else None)
            if r == 'sat': cand(f'interp/{name}/mem-value', 'memory after the instruction differs from the ISA value', m, path=p)
            r, m = pr.prove(f'{name}:frames', assume, And(Q.sfi == exp_sfi, *frames_eq(Q.frames, exp_frames)))
            if r == 'sat': cand(f'interp/{name}/frame-state', 'call-frame state differs', m, path=p)
        if 'C07' in props:
            # frame lemma: a step never modifies the frames of suspended callers (indices below the depth after the step)
            for j in range(8):
                below = And(ULT(BitVecVal(j, 64), P.sfi), ULT(BitVecVal(j, 64), Q.sfi))
                same = And(*frames_eq([Q.frames[j]], [P.frames[j]]))
                if all(a.eq(b) for a, b in zip([Q.frames[j][0]] + list(Q.frames[j][1]) + list(Q.frames[j][2]), [P.frames[j][0]] + list(P.frames[j][1]) + list(P.frames[j][2]))):
                    pr.out['obligations'] += 1; pr.out['discharged'] += 1; continue
                r, m = pr.prove(f'{name}:suspended-frame-{j}-untouched', pc_, Implies(below, same), sample=f'{name}: frames of suspended callers are not modified')
                if r == 'sat': cand(f'interp/{name}/suspended-frame-modified', f'frame {j} of a suspended caller is modified', m, path=p)
            if k == 'call':
                r, m = pr.prove(f'{name}:local-call-needs-depth<8', pc_, Or(P.src != 1, ULT(P.sfi, 8)), sample='call: a local call continues only at depth < 8 (deeper nesting is an error)')
                if r == 'sat': cand(f'interp/{name}/depth-not-checked', 'local call performed at depth 8', m, path=p)
        if 'C08' in props and k == 'call':
            hc = [e for e in Q.events if e[0] == 'hcall']
            # helper call (src = 0): exactly one call, to the function registered under zext(imm), with (r1..r5)
            r, m = pr.prove(f'{name}:helper-path-has-src0-or-no-call', pc_, Or(P.src == 0, BoolVal(len(hc) == 0)))
            if r == 'sat': cand(f'interp/{name}/helper-called-for-local-call', 'a helper is invoked for a call with src != 0', m, path=p)
            if hc:
                pr.out['obligations'] += 1
                if len(hc) != 1: cand(f'interp/{name}/helper-call-count', f'{len(hc)} helper invocations for one call instruction', None, path=p)
                else:
                    pr.out['discharged'] += 1
                    key, args = hc[0][1], hc[0][2]
                    r, m = pr.prove(f'{name}:helper-id', pc_, And(key == P.imm, P.registered(P.imm)), sample='call: the function invoked is the one registered under id = imm (any u32)')
                    if r == 'sat': cand(f'interp/{name}/helper-id', 'helper looked up under another id / not registered', m, path=p)
                    for j in range(5):
                        r, m = pr.prove(f'{name}:helper-arg{j+1}', pc_, args[j] == P.regs[j + 1], sample='call: arguments are (r1, r2, r3, r4, r5) in that order' if j == 0 else None)
                        if r == 'sat': cand(f'interp/{name}/helper-args', f'argument {j+1} is not r{j+1}', m, path=p)
                    r, m = pr.prove(f'{name}:helper-result-in-r0', pc_, Q.regs[0] == P.hcall(P.helper(P.imm), *P.regs[1:6]))
                    if r == 'sat': cand(f'interp/{name}/helper-result', 'r0 is not the helper\'s return value', m, path=p)
                    for j in range(6, 11):
                        r, m = pr.prove(f'{name}:helper-preserves-r{j}', pc_, Q.regs[j] == P.regs[j])
                        if r == 'sat': cand(f'interp/{name}/helper-clobbers-callee-saved', f'r{j} changed across a helper call', m, path=p)
            else:
                r, m = pr.prove(f'{name}:continuing-src0-path-calls-helper', pc_, P.src != 0)
                if r == 'sat': cand(f'interp/{name}/helper-not-called', 'helper call continues without invoking the helper', m, path=p)
        if 'C18' in props and k == 'xadd':
            n = info['size']; addr = O.access[0]
            ev = [e for e in Q.events if e[0] == 'atomic_rmw']
            pr.out['obligations'] += 1
            if len(ev) != 1 or len(data) != 2: cand(f'interp/{name}/not-a-single-atomic-rmw', f'update is not one fetch_add: events={len(ev)} accesses={[d[0] for d in data]}', None, path=p)
            else:
                pr.out['discharged'] += 1
                r, m = pr.prove(f'{name}:atomic-operand', pc_, And(ev[0][1] == addr, ev[0][3] == Extract(8 * n - 1, 0, spec.sel(P.regs, P.src))), sample=f'{name}: one fetch_add of trunc{8*n}(src) at dst+off')
                if r == 'sat': cand(f'interp/{name}/atomic-operand', 'atomic add with a wrong address or addend', m, path=p)
            r, m = pr.prove(f'{name}:atomic-mem', pc_, Q.M == O.M, sample=f'{name}: M\' = M[addr..+{n} := old + trunc(src)], nothing else written')
            if r == 'sat': cand(f'interp/{name}/atomic-mem', 'memory after atomic add differs (other bytes touched / wrong sum)', m, path=p)
            r, m = pr.prove(f'{name}:atomic-aligned', pc_, URem(addr, BitVecVal(n, 64)) == 0)
            if r == 'sat': cand(f'interp/{name}/misaligned-performed', 'misaligned atomic add is carried out', m, path=p)
    # ---- vacuity guards for this opcode
    good = [p for p in paths if p.kind == 'cut' or (p.kind == 'return' and is_true(simplify(p.payload.disc() == 0)))]
    if spec.classify(opc)[0] != 'tail_call':
        if not good: pr.out['errors'].append(f'{name}: no continuing/returning path under the well-formedness assumptions (vacuous)')
        else:
            pr.witness(f'{name}:path', list(good[0].st.pc))
            if 'C01' in props and good[0].kind == 'cut':
                Q = I.post(good[0]); pr.twin(f'{name}:pc+1', list(good[0].st.pc), Q.pc == (O.pc if k not in ('call', 'exit') else Q.pc) + 1)
    pr.out['programs'] += 1
    return cands, npaths


def call_exit_spec(P, k, S_frames):
    """C07 / C08 semantics of call and exit (continuing cases only)"""
    regs = list(P.regs); sfi = P.sfi
    ud, uv, _, _, _ = cur_usage(P)
    size_cur = If(ud == 0, BitVecVal(256, 64), ZeroExt(48, uv))
    if k == 'call':
        # helper call (src = 0): r0 = helper(r1..r5)
        h_regs = list(regs); h_regs[0] = P.hcall(P.helper(P.imm), regs[1], regs[2], regs[3], regs[4], regs[5])
        # local call (src = 1)
        l_regs = list(regs); l_regs[10] = regs[10] - size_cur
        l_frames = []
        for i, (ra, sv, us) in enumerate(S_frames):
            c = P.sfi == i
            l_frames.append((If(c, P.pc + 1, ra), [If(c, regs[6 + j], sv[j]) for j in range(4)], us))
        is_local = P.src == 1
        exp_regs = [If(is_local, a, b) for a, b in zip(l_regs, h_regs)]
        exp_pc = If(is_local, P.pc + 1 + SignExt(32, P.imm), P.pc + 1)
        exp_sfi = If(is_local, sfi + 1, sfi)
        exp_frames = [(If(is_local, a[0], b[0]), [If(is_local, x, y) for x, y in zip(a[1], b[1])], a[2]) for a, b in zip(l_frames, S_frames)]
        return exp_regs, exp_pc, P.M, exp_sfi, exp_frames
    if k == 'exit':
        # return from a local call (sfi > 0): restore r6-r9, pc, r10 from frames[sfi-1]
        def fld(f):
            v = f(S_frames[7])
            for i in range(6, -1, -1): v = If(P.sfi - 1 == i, f(S_frames[i]), v)
            return v
        r = list(regs)
        for j in range(4): r[6 + j] = fld(lambda fr: fr[1][j])
        d = fld(lambda fr: fr[2][0]); v = fld(lambda fr: fr[2][1])
        r[10] = regs[10] + If(d == 0, BitVecVal(256, 64), ZeroExt(48, v))
        return r, fld(lambda fr: fr[0]), P.M, P.sfi - 1, S_frames
    return regs, P.pc + 1, P.M, sfi, S_frames


# --------------------------------------------------------------------------------------------- worker / driver
def worker(args):
    opcodes, props, profile, nranges, timeout_ms, sd = args
    try:
        mir, key = common.load_mir('std'); tt = common.type_table()
        I = interp.Interp(mir, tt, nranges=nranges, overflow_panics=(profile == 'dev'), timeout_ms=timeout_ms)
        pr = obl.Prover(timeout_ms, sd)
        allc = []; stats = {}
        for opc in opcodes:
            try:
                c, np_ = check_opcode(I, opc, props, pr, profile)
                allc += c; stats[opc] = np_
            except mirsym.Unsupported as e:
                pr.out['errors'].append(f'{spec.opname(opc)} ({opc:#x}): unsupported MIR construct: {e}')
        pr.out['functions'] = I.functions_encoded()
        pr.out['stubs'] = sorted(I.stubs_used)
        pr.out['engine_stats'] = dict(I.eng.stats)
        return dict(out=pr.out, cands=allc, stats=stats)
    except Exception as e:
        return dict(out=dict(errors=[f'worker crashed: {e}\n{traceback.format_exc()}']), cands=[], stats={})


def run_sharded(opcodes, props, profile, nranges, timeout_ms):
    import multiprocessing as mp
    common.load_mir('std')        # make sure the dump exists before forking
    nj = min(common.jobs(), len(opcodes)) or 1
    # interleave so that slow (memory) opcodes spread over workers
    shards = [opcodes[i::nj] for i in range(nj)]
    with mp.Pool(nj) as pool:
        res = pool.map(worker, [(s, props, profile, nranges, timeout_ms, common.seed()) for s in shards])
    return res
