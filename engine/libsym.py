"""Symbolic execution of the VM wrapper methods of src/lib.rs (EbpfVmMbuff / FixedMbuff / Raw / NoData) from their MIR,
with `self` as a lazily materialised symbolic struct.  The engines behind the wrappers are environment stubs that record
their arguments: interpreter::execute_program, the JIT-compiled function pointer, CraneliftProgram::execute, the verifier
function pointer, StackVerifier::stack_validate, JitMemory::new, CraneliftCompiler::compile_function."""
import re
from z3 import (BitVec, BitVecVal, Bool, BoolVal, Array, BitVecSort, And, Or, Not, If, ULT, ULE, UGE, simplify, is_true)
import mirsym
from mirsym import V, Agg, Enum, Slice, Opaque, Ptr, Ref, LazyObj, Unsupported

VM_TYPES = {'mbuff': 'EbpfVmMbuff', 'raw': 'EbpfVmRaw', 'nodata': 'EbpfVmNoData', 'fixed': 'EbpfVmFixedMbuff'}


def find_method(mir, vm, meth):
    ty = VM_TYPES[vm]
    c = [n for n in mir.funcs if n.endswith('::' + meth) and '<impl at src/lib.rs' in n and mir.funcs[n].params and re.search(r'\b' + ty + r'\b', mir.funcs[n].params[0][1])]
    if not c and meth == 'new':
        c = [n for n in mir.funcs if n.endswith('::new') and '<impl at src/lib.rs' in n and re.search(r'\b' + ty + r'\b', mir.funcs[n].ret)]
    if len(c) != 1: raise Unsupported(f'{ty}::{meth}: {len(c)} candidates')
    return mir.funcs[c[0]]


class LibRun:
    """one symbolic run of a wrapper method; .calls records the environment calls made on each path"""
    def __init__(self, mir, types, timeout_ms=20000):
        self.mir = mir; self.eng = mirsym.Engine(mir, types, timeout_ms); self.eng.overflow_panics = True
        self.n = 0
        e = self.eng
        def D(name):
            d = BitVec(name, 64); e.ctx.setdefault('lazy_ranges', []).append(ULT(d, 2)); return d
        def rec(st, kind, args): st.events.append((kind, list(args)))
        def interp_stub(en, st, fr, callee, args, R):
            self.n += 1; rec(st, 'interp', args)
            return R(Enum(D(f'interp_res_d!{self.n}'), {0: [V(BitVec(f'interp_res_v!{self.n}', 64), 'u64')], 1: [Opaque('err', ('interp',))]}, 'Result'))
        e.add_stub(r'^(interpreter::)?execute_program$', interp_stub)
        e.add_stub(r'JitMemory::get_prog$', lambda en, st, fr, callee, args, R: R(Opaque('jitfn', (args[0],))))
        def ind(en, st, fr, fv, args, R):
            self.n += 1
            if isinstance(fv, Opaque) and fv.tag == 'jitfn':
                rec(st, 'jit', [fv.args[0]] + list(args)); return R(V(BitVec(f'jit_ret!{self.n}', 64), 'u64'))
            if isinstance(fv, Opaque) and fv.tag == 'fnptr':       # the verifier function pointer
                rec(st, 'verifier', [fv] + list(args))
                return R(Enum(D(f'verdict!{self.n}'), {0: [Agg([], '()')], 1: [Opaque('err', ('verifier',))]}, 'Result'))
            return NotImplemented
        e.ctx['indirect_call'] = ind
        def clif_exec(en, st, fr, callee, args, R):
            self.n += 1; rec(st, 'cranelift', args); return R(V(BitVec(f'clif_ret!{self.n}', 64), 'u64'))
        e.add_stub(r'CraneliftProgram::execute$', clif_exec)
        def check_stub(en, st, fr, callee, args, R):
            self.n += 1; rec(st, 'verifier', [Opaque('fnptr', ('verifier::check',))] + list(args))
            return R(Enum(D(f'verdict!{self.n}'), {0: [Agg([], '()')], 1: [Opaque('err', ('verifier',))]}, 'Result'))
        e.add_stub(r'^(verifier::)?check$', check_stub)
        def stack_validate(en, st, fr, callee, args, R):
            self.n += 1; rec(st, 'stack_validate', args)
            return R(Enum(D(f'sv!{self.n}'), {0: [LazyObj(f'stack_usage!{self.n}', 'StackUsage')], 1: [Opaque('err', ('stack_validate',))]}, 'Result'))
        e.add_stub(r'StackVerifier::stack_validate$', stack_validate)
        e.add_stub(r'StackVerifier::new$', lambda en, st, fr, callee, args, R: R(LazyObj('stack_verifier', 'StackVerifier', {0: args[0], 1: args[1]})))
        def jit_new(en, st, fr, callee, args, R):
            self.n += 1; rec(st, 'jit_new', args)
            return R(Enum(D(f'jitnew!{self.n}'), {0: [LazyObj(f'jitmem!{self.n}', 'JitMemory', {'tag': tuple(args)})], 1: [Opaque('err', ('jit',))]}, 'Result'))
        e.add_stub(r'JitMemory::new$', jit_new)
        e.add_stub(r'CraneliftCompiler::new$', lambda en, st, fr, callee, args, R: R(LazyObj('clif_compiler', 'CraneliftCompiler', {'helpers': args[0]})))
        def compile_fn(en, st, fr, callee, args, R):
            self.n += 1; rec(st, 'clif_compile', args)
            return R(Enum(D(f'clifnew!{self.n}'), {0: [LazyObj(f'clifprog!{self.n}', 'CraneliftProgram', {'tag': tuple(args)})], 1: [Opaque('err', ('cranelift',))]}, 'Result'))
        e.add_stub(r'CraneliftCompiler::compile_function$', compile_fn)
        e.add_stub(r'^hashbrown::Hash(Map|Set)::(new|insert|clone)$', lambda en, st, fr, callee, args, R: (rec(st, callee.split('::')[-1] if True else '', args), R(Opaque('hashcontainer', (callee,))))[1])
        e.add_stub(r'as Clone>::clone$', lambda en, st, fr, callee, args, R: R(en.deref(st, args[0])))
        def from_elem(en, st, fr, callee, args, R):
            self.n += 1
            base = BitVec(f'vecalloc!{self.n}', 64); rec(st, 'alloc', [args[0], args[1], base])
            return R(Slice(base, args[1].t, 'u8'))
        e.add_stub(r'^(std|alloc)::vec::from_elem$', from_elem)
        def vec_resize(en, st, fr, callee, args, R):
            # Vec::<u8>::resize(&mut v, new_len, value): same allocation (or a moved copy of it) - the first min(old, new) bytes are RETAINED; recorded as an event,
            # the slice keeps its base so that 'freshly allocated' obligations see that it is the old buffer
            r = args[0]; old_ = en.get(st, r.frame, r.local, r.proj); rec(st, 'resize', [old_, args[1], args[2]])
            if not isinstance(old_, Slice): return NotImplemented
            en.put(st, r.frame, r.local, r.proj, Slice(old_.base, args[1].t, old_.ety)); return R(Agg([], '()'))
        e.add_stub(r'Vec::<u8>::resize$|Vec::resize$', vec_resize)
        e.add_stub(r'^(std|core)::cmp::max$|Ord>::max$', lambda en, st, fr, callee, args, R: R(V(If(UGE(args[0].t, args[1].t), args[0].t, args[1].t), args[0].ty)))
        e.add_stub(r'Box::<.*>::new$|^Box::new$|boxed::Box::new$', lambda en, st, fr, callee, args, R: R(args[0]))
    def run(self, vm, meth, mem=None, extra_args=None, self_obj=None, pre=()):
        f = find_method(self.mir, vm, meth)
        st = mirsym.State(); st.mem = Array('M0', BitVecSort(64), BitVecSort(8)); st.pc = list(pre)
        fr = mirsym.Frame(f); fr.tag = 'top'; st.frames.append(fr)
        self.args = {}
        for i, (p, t) in enumerate(f.params):
            if i == 0 and 'Ebpf' in t: v = self_obj if self_obj is not None else self.eng.fresh_lazy(t, 'self')
            else: v = (extra_args or {}).get(i) or self.eng.fresh_lazy(t, f'arg{i}')
            fr.locals[p] = v; self.args[i] = v
        self.func = f
        paths = self.eng.explore(st)
        return paths
    def final_self(self, path):
        fr = path.st.frames[0] if path.st.frames else None
        return None
