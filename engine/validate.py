"""Validation of the encoders against the real build (never a deciding step): for a whole program whose symbolic runs were just
compared, one satisfying assignment of the inputs is taken from the solver, the value the *models* predict (mirsym interpreter,
x86sym / clifsym compiled code) is read off, and the program is run natively on those inputs through the public API.  A native
value that differs from the model's prediction means an executor or semantics table is wrong: machinery error (exit 2)."""
from z3 import Select, ULE, UGE, is_bv_value, simplify
from obl import mval

BASES = ('mem_base', 'mbuff_base', 'stack_base', 'prog_base', 'rsp', 'base', 'clif_stack_base')


def mentions_any(t, names):
    seen = set(); stack = [t]
    while stack:
        x = stack.pop(); i = x.get_id()
        if i in seen: continue
        seen.add(i)
        if x.num_args() == 0:
            n = x.decl().name()
            if any(n == b or n.startswith(b) or (b in ('rsp', 'base') and b in n) for b in names): return True
        else: stack.extend(x.children())
    return False


def relates_data_to_address(t):
    """does the term combine input data (a read of M0) with a region address *outside* the index of such a read?
    (`M0[mbuff_base + 8] < 5` is data only; `M0[mbuff_base + 8] < stack_base` relates data to an address)"""
    from z3 import Z3_OP_SELECT
    seen = set(); stack = [t]; data = False; base = False
    while stack:
        x = stack.pop(); i = x.get_id()
        if i in seen: continue
        seen.add(i)
        if x.num_args() == 0:
            n = x.decl().name()
            if any(n == b or n.startswith(b) or (b in ('rsp', 'base') and b in n) for b in BASES): base = True
        elif x.decl().kind() == Z3_OP_SELECT and x.arg(0).num_args() == 0 and x.arg(0).decl().name() == 'M0': data = True      # do not look inside the index
        else: stack.extend(x.children())
    return data and base


def validate(pr, drv, name, S, both, predictions, prog, vm='mbuff', helpers=(), fixed=None):
    """predictions: {'interp': term, 'jit'|'cranelift': term}"""
    v = pr.out.setdefault('validation', dict(instances=0, agree=0, skipped=0))
    if helpers or any(relates_data_to_address(simplify(t)) or (mentions_any(simplify(t), BASES) and not mentions_any(simplify(t), ('M0',))) for t in predictions.values()): v['skipped'] += 1; return
    # a path condition relating input data to a region address (a data-derived pointer, a comparison with r10) cannot be reproduced natively: the addresses differ
    if any(relates_data_to_address(c) for c in both): v['skipped'] += 1; return
    r, m = pr.check(both, [ULE(S.mem_len, 64), ULE(S.mbuff_len, 64), UGE(S.mbuff_len, 32), UGE(S.mem_len, 16)])
    if r != 'sat': r, m = pr.check(both, [ULE(S.mem_len, 2048), ULE(S.mbuff_len, 2048)])
    if r != 'sat': v['skipped'] += 1; return
    ml, bl = mval(m, S.mem_len), mval(m, S.mbuff_len)
    mem = bytes(mval(m, Select(S.M0, S.mem_base + i)) for i in range(ml)); mb = bytes(mval(m, Select(S.M0, S.mbuff_base + i)) for i in range(bl))
    v['instances'] += 1; ok = True
    for eng, t in predictions.items():
        want = mval(m, t)
        nat = drv.run(prog, vm=vm, mem=mem, mbuff=mb, engine=eng, helpers=[], fixed=fixed)
        if nat.get('status') != 'ok':
            # the native run faults where the model's layout had room (an access that is in bounds only for the region addresses of the model): not comparable
            v['skipped'] += 1; v['instances'] -= 1; ok = None; break
        if nat.get('value') != want:
            ok = False
            pr.out['errors'].append(f'encoder validation: {name} under {eng}: the model predicts {want:#x} for mem={mem.hex()[:64]} mbuff={mb.hex()[:64]}, the real build gives {nat.get("status")} {nat.get("value")}')
    if ok: v['agree'] += 1
