"""Shared plumbing: MIR dumps of /repo's working tree, evidence files, known findings, obligations bookkeeping."""
import os, sys, json, time, subprocess, hashlib, fcntl, shutil, glob

VERIF = os.path.dirname(os.path.dirname(os.path.abspath(__file__)))
REPO = os.environ.get('VERIF_REPO', '/repo')
WORK = os.path.join(VERIF, '.work')
# runs against deliberately broken trees (seedrun.sh / seedall.sh) write their evidence elsewhere so that evidence/ always describes the unchanged tree
EVID = os.environ.get('VERIF_EVIDENCE_DIR') or os.path.join(VERIF, 'evidence')
REPLAYS = os.path.join(VERIF, 'replays')
NIGHTLY = os.environ.get('VERIF_NIGHTLY', 'nightly')
HOOK_CFG = 'rbpf_verif'

sys.path.insert(0, os.path.dirname(os.path.abspath(__file__)))
import mirsym


def tier():
    t = os.environ.get('VERIF_TIER', 'quick')
    return t if t in ('quick', 'thorough') else 'quick'


def seed():
    try: return int(os.environ.get('VERIF_SEED', '0'))
    except ValueError: return 0


def jobs():
    try: return int(os.environ.get('VERIF_JOBS', '16'))
    except ValueError: return 16


def cargo_env(extra_rustflags=''):
    env = dict(os.environ)
    env['CARGO_NET_OFFLINE'] = 'true'
    env.pop('RUSTFLAGS', None)
    if extra_rustflags: env['RUSTFLAGS'] = extra_rustflags
    return env


class Lock:
    def __init__(self, name):
        os.makedirs(WORK, exist_ok=True); self.path = os.path.join(WORK, name + '.lock')
    def __enter__(self):
        self.f = open(self.path, 'w'); fcntl.flock(self.f, fcntl.LOCK_EX); return self
    def __exit__(self, *a):
        fcntl.flock(self.f, fcntl.LOCK_UN); self.f.close()


def mir_dump(features='std', hooks=False):
    """MIR text of the rbpf lib for the current working tree of /repo.
    features: 'std' (default features) | 'nostd' (--no-default-features) | 'cranelift' (std + cranelift).
    The dump is keyed by a hash of the crate sources, so an edit under /repo always yields a new dump; an unchanged
    tree re-uses the dump of the same sources (same thing cargo's own fingerprinting does)."""
    key = mirsym.source_key(REPO, (features, hooks))
    d = os.path.join(WORK, 'mir'); os.makedirs(d, exist_ok=True)
    out = os.path.join(d, f'{features}{"-hooks" if hooks else ""}-{key}.mir')
    with Lock('mir-' + features):
        if os.path.exists(out) and os.path.getsize(out) > 100000:
            return out, key
        tdir = os.path.join(WORK, 'mir-target-' + features)
        # remove rbpf's own fingerprint so rustc really runs (otherwise cargo prints nothing)
        for p in glob.glob(os.path.join(tdir, 'debug', '.fingerprint', 'rbpf-*')): shutil.rmtree(p, ignore_errors=True)
        cmd = ['cargo', '+' + NIGHTLY, 'rustc', '--offline', '--lib', '--manifest-path', os.path.join(REPO, 'Cargo.toml'),
               '--target-dir', tdir]
        if features == 'nostd': cmd += ['--no-default-features']
        elif features == 'cranelift': cmd += ['--features', 'cranelift']
        cmd += ['--', '-Zunpretty=mir', '-C', 'debug-assertions=off', '-C', 'overflow-checks=on']
        if hooks: cmd += ['--cfg', HOOK_CFG]
        t0 = time.time()
        r = subprocess.run(cmd, stdout=subprocess.PIPE, stderr=subprocess.PIPE, env=cargo_env(), cwd=REPO)
        if r.returncode != 0 or len(r.stdout) < 100000:
            sys.stderr.write(r.stderr.decode()[-4000:])
            raise RuntimeError(f'MIR dump failed ({features}): rc={r.returncode}, {len(r.stdout)} bytes')
        tmp = out + '.tmp'
        open(tmp, 'wb').write(r.stdout); os.replace(tmp, out)
        # keep only the 6 most recent dumps per feature set
        old = sorted(glob.glob(os.path.join(d, f'{features}*-*.mir')), key=os.path.getmtime)[:-6]
        for p in old: os.remove(p)
        sys.stderr.write(f'[mir] dumped {features} in {time.time()-t0:.1f}s -> {out}\n')
    return out, key


_mir_cache = {}
def load_mir(features='std', hooks=False):
    path, key = mir_dump(features, hooks)
    if path not in _mir_cache:
        _mir_cache[path] = mirsym.Mir(open(path).read())
    return _mir_cache[path], key


def type_table():
    return mirsym.TypeTable(os.path.join(REPO, 'src'))


# ------------------------------------------------------------------------------------------ known findings
def load_findings():
    p = os.path.join(VERIF, 'known_findings.json')
    if not os.path.exists(p): return {'findings': [], 'fixed': []}
    return json.load(open(p))


class Report:
    """collects obligations, violations and evidence for one property run."""
    def __init__(self, pid, level, design_ref=''):
        self.pid = pid; self.level = level; self.t0 = time.time()
        self.obligations = 0; self.discharged = 0; self.inconclusive = []; self.violations = []   # (role, detail, replay)
        self.nontrivial = set(); self.samples = []; self.assumptions = []; self.functions = {}; self.bounds = {}
        self.witnesses = 0; self.twins = 0; self.solver_s = 0.0; self.extra = {}; self.machinery_errors = []
        self.programs = 0; self.replayed = 0
    def merge_counts(self, d):
        self.obligations += d.get('obligations', 0); self.discharged += d.get('discharged', 0)
        self.inconclusive += d.get('inconclusive', []); self.solver_s += d.get('solver_s', 0.0)
        for x in d.get('nontrivial', []): self.nontrivial.add(x)
        self.witnesses += d.get('witnesses', 0); self.twins += d.get('twins', 0)
        for s in d.get('samples', []):
            if len(self.samples) < 12: self.samples.append(s)
        self.machinery_errors += d.get('errors', [])
        self.programs += d.get('programs', 0)
        for k, v in d.get('functions', {}).items(): self.functions[k] = v
        if d.get('xcheck'):
            x = self.extra.setdefault('second_solver_sample', dict(exported=0, agree=0, unknown=0, disagree=0, solvers='cvc5 1.0, z3 4.8.12 (binary)'))
            for k in ('exported', 'agree', 'unknown', 'disagree'): x[k] += d['xcheck'].get(k, 0)
        if d.get('validation'):
            x = self.extra.setdefault('encoder_validation', dict(instances=0, agree=0, skipped=0, what='model-predicted result vs the real build run natively on the same concrete inputs'))
            for k in ('instances', 'agree', 'skipped'): x[k] += d['validation'].get(k, 0)
        if d.get('syntactic'): self.extra['closed_syntactically'] = self.extra.get('closed_syntactically', 0) + d['syntactic']
    def finish(self, candidates, replay_fn=None):
        """candidates: list of dicts {role, detail, model}. replay_fn(c) -> (reproduced: bool, info).  Returns exit code."""
        kf = load_findings()
        known = {(f['property'], f['role']): f for f in kf.get('findings', [])}
        rc = 0; printed_known = set(); nrep = 0
        os.makedirs(REPLAYS, exist_ok=True)
        viol = 0
        by_role = {}
        for c in candidates: by_role.setdefault(c['role'], []).append(c)
        for role, cs in sorted(by_role.items()):
            cs = sorted(cs, key=lambda x: not x.get('friendly', True))
            c = cs[0]
            reproduced, info = (True, 'no replay function') if replay_fn is None else replay_fn(c)
            nrep += 1
            c['replay_info'] = info
            if reproduced is None:
                self.machinery_errors.append(f'replay impossible for {role}: {info}'); continue
            if not reproduced:
                self.machinery_errors.append(f'counterexample for {role} did not reproduce natively: {info}')
                continue
            if (self.pid, role) in known:
                if role not in printed_known:
                    print(f'KNOWN-FINDING: property={self.pid} {role}: {known[(self.pid, role)].get("what", "")}')
                    printed_known.add(role)
                continue
            digest = hashlib.sha256((self.pid + role).encode()).hexdigest()[:10]
            path = os.path.join(REPLAYS, f'{self.pid}-{digest}.json')
            json.dump({'property': self.pid, 'role': role, 'detail': c.get('detail'), 'model': c.get('model'),
                       'replay': c.get('replay'), 'replay_info': info}, open(path, 'w'), indent=1, default=str)
            print(f'VIOLATION property={self.pid} replay={path}')
            print(f'  role={role} detail={c.get("detail")}')
            viol += 1; rc = 1
        self.replayed = nrep
        for x in self.inconclusive[:30]: print(f'INCONCLUSIVE: {x}')
        for x in self.machinery_errors[:60]: print(f'MACHINERY: {x}')
        if rc == 0 and (self.inconclusive or self.machinery_errors): rc = 2
        self.write_evidence(viol, sorted(printed_known))
        return rc
    def write_evidence(self, viol, known_printed=()):
        os.makedirs(EVID, exist_ok=True)
        cov = {
            'obligations': self.obligations, 'discharged': self.discharged,
            'inconclusive': len(self.inconclusive),
            'evaluations': max(self.obligations, 1), 'distinct_nontrivial': len(self.nontrivial),
            'rule': 'one obligation = one solver query (negated property over a symbolic state, all values inside the bounds); '
                    'non-trivial = not closed by z3 simplification alone and distinct as (function, opcode/case, path, aspect)',
            'samples': self.samples[:12] or ['(none)'],
            'functions_encoded': self.functions, 'bounds': self.bounds,
            'reachability_witnesses': self.witnesses, 'mutant_twins_sat': self.twins,
            'solver_time_s': round(self.solver_s, 2), 'known_findings_reported': list(known_printed),
            'counterexamples_replayed': self.replayed,
            'checker_cmd': f'./vcheck {self.pid} --tier {tier()}',
            'trusted_base': ['rustc MIR as the meaning of the source', 'mirsym intrinsic table (documented std semantics)',
                             'z3 4.x/5.x', 'reference semantics transcribed from the property statement'],
        }
        if self.level == 'translation_validation':
            cov['programs'] = max(self.programs, 1); cov['disagreements_checked'] = self.replayed
        if self.level == 'model_checking':
            cov['states'] = max(self.obligations, 1); cov['transitions'] = max(self.discharged, 1)
            cov['traces_validated_against_impl'] = self.replayed
        cov.update(self.extra)
        ev = {'property_id': self.pid, 'tier': tier(), 'seed': seed(), 'level': self.level, 'coverage': cov,
              'assumptions': self.assumptions, 'wall_s': round(time.time() - self.t0, 2), 'violations': viol}
        json.dump(ev, open(os.path.join(EVID, f'{self.pid}.json'), 'w'), indent=1, default=str)


def zcheck(solver, *assumps):
    """(result, seconds); result in 'sat' 'unsat' 'unknown'"""
    t0 = time.time(); r = solver.check(*assumps); return str(r), time.time() - t0
