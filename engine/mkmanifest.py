#!/usr/bin/env python3
"""Writes /verif/MANIFEST.json from the table below (kept in one place so it is always valid)."""
import json, os
V = os.path.dirname(os.path.dirname(os.path.abspath(__file__)))
CHECKS = {
 # id: (level, technique, text, note, engine)
}
NOT_APPLICABLE = {}
def load_tables():
    import importlib.util
    p = os.path.join(V, 'engine', 'manifest_table.py')
    spec = importlib.util.spec_from_file_location('manifest_table', p); m = importlib.util.module_from_spec(spec); spec.loader.exec_module(m)
    return m
def main():
    m = load_tables()
    checks = []
    for pid in sorted(m.CHECKS):
        c = m.CHECKS[pid]
        checks.append(dict(property_id=pid, quick_cmd=f'./vcheck {pid} --tier quick', thorough_cmd=f'./vcheck {pid} --tier thorough',
                           evidence_file=f'/verif/evidence/{pid}.json', replay_cmd_template=f'./vcheck {pid} --replay {{path}}',
                           engine=c['engine'], level_claimed=dict(category=c['level'], text=c['text'], design_ref=c['design_ref']),
                           level_note=c['note'], technique=c['technique']))
    props = [json.loads(l)['id'] for l in open(os.path.join(V, 'properties.jsonl'))]
    na = [dict(property_id=p, reason=m.NOT_APPLICABLE.get(p, 'check not built yet in this session (machinery under construction); no claim is made')) for p in props if p not in m.CHECKS]
    man = dict(version=1, setup_cmd=m.SETUP_CMD, hooks=m.HOOKS, engines=m.ENGINES, checks=checks, notes=m.NOTES, not_applicable=na)
    json.dump(man, open(os.path.join(V, 'MANIFEST.json'), 'w'), indent=1)
    print('MANIFEST.json written:', len(checks), 'checks,', len(na), 'not applicable')
if __name__ == '__main__': main()
