"""Concrete reference eBPF machine (a direct transcription of the property statements C01/C02/C07/C08) used only to
REPLAY solver counterexamples differentially against the real build and to validate the symbolic encoders."""
import spec

M64 = (1 << 64) - 1
FAKE_STACK = 0x7fff_0000_0000


def sx(v, bits):
    v &= (1 << bits) - 1
    return v - (1 << bits) if v >> (bits - 1) else v


def rotl(x, n): return ((x << n) | (x >> (64 - n))) & M64


def helper_mix(k, a):
    return ((a[0] ^ rotl(a[1], 7) ^ rotl(a[2], 13) ^ rotl(a[3], 29) ^ rotl(a[4], 43)) + k * 0x9e3779b97f4a7c15) & M64


HELPERS = {'h0': lambda a: helper_mix(0, a), 'h1': lambda a: helper_mix(1, a), 'h2': lambda a: helper_mix(2, a),
           'h3': lambda a: helper_mix(3, a), 'align': lambda a: (a[0] + a[1]) & M64, 'rsp': lambda a: 0,
           'gather_bytes': lambda a: ((a[0] << 32) | (a[1] << 24) | (a[2] << 16) | (a[3] << 8) | a[4]) & M64}


def insn(opc, dst=0, src=0, off=0, imm=0):
    return bytes([opc & 0xff, ((src & 15) << 4) | (dst & 15)]) + (off & 0xffff).to_bytes(2, 'little') + (imm & 0xffffffff).to_bytes(4, 'little')


def lddw(dst, v):
    return insn(0x18, dst, 0, 0, v & 0xffffffff) + insn(0, 0, 0, 0, (v >> 32) & 0xffffffff)


class Regions:
    def __init__(self, mem, mem_addr, mbuff, mbuff_addr, extra=b'', extra_addr=0, allowed=()):
        self.bufs = {'mem': [mem_addr, bytearray(mem)], 'mbuff': [mbuff_addr, bytearray(mbuff)],
                     'stack': [FAKE_STACK, bytearray(512)], 'extra': [extra_addr, bytearray(extra)]}
        self.allowed = list(allowed)      # (start, end) absolute
    def find(self, addr, n):
        if addr + n > (1 << 64): return None
        for name in ('mbuff', 'mem', 'stack'):
            b, d = self.bufs[name]
            if b <= addr and addr + n <= b + len(d): return name
        for (s, e) in self.allowed:
            if s <= addr and addr + n <= e:
                b, d = self.bufs['extra']
                if b <= addr and addr + n <= b + len(d): return 'extra'
                return 'foreign'
        return None
    def load(self, addr, n):
        r = self.find(addr, n)
        if r is None or r == 'foreign': return None
        b, d = self.bufs[r]; return int.from_bytes(d[addr - b:addr - b + n], 'little')
    def store(self, addr, n, v):
        r = self.find(addr, n)
        if r is None or r == 'foreign': return False
        b, d = self.bufs[r]; d[addr - b:addr - b + n] = (v & ((1 << (8 * n)) - 1)).to_bytes(n, 'little'); return True


def run(prog, R, vm='mbuff', helpers=None, stack_usage=None, max_steps=3_000_000):
    """returns dict(status='ok'|'err'|'timeout'|'illformed', value=..., reason=...)"""
    helpers = helpers or {}
    n = len(prog) // 8
    regs = [0] * 11
    regs[10] = FAKE_STACK + 512
    mb, me = R.bufs['mbuff'], R.bufs['mem']
    if len(mb[1]) > 0: regs[1] = mb[0]
    elif len(me[1]) > 0: regs[1] = me[0]
    def usage_of(pc):
        if stack_usage is None: return 256
        if isinstance(stack_usage, int): return stack_usage
        for k, s in stack_usage:
            if k == pc: return s
        return 256
    frames = []; cur_entry = 0
    pc = 0; steps = 0
    while True:
        steps += 1
        if steps > max_steps: return dict(status='timeout')
        if not (0 <= pc < n): return dict(status='illformed', reason=f'pc {pc} outside program')
        b = prog[8 * pc:8 * pc + 8]
        opc = b[0]; dst = b[1] & 15; src = b[1] >> 4; off = sx(int.from_bytes(b[2:4], 'little'), 16); imm = sx(int.from_bytes(b[4:8], 'little'), 32)
        c = spec.classify(opc)
        if c is None or dst > 10 or src > 10: return dict(status='illformed', reason=f'bad instruction at {pc}')
        k, i = c
        D = regs[dst]; S = regs[src]
        npc = pc + 1
        if k == 'alu':
            w = i['w']; mask = (1 << w) - 1
            a = D & mask; bb = (S if i['x'] else imm) & mask
            op = i['op']
            if op == 'add': r = a + bb
            elif op == 'sub': r = a - bb
            elif op == 'mul': r = a * bb
            elif op == 'div': r = 0 if bb == 0 else a // bb
            elif op == 'mod': r = a if bb == 0 else a % bb
            elif op == 'or': r = a | bb
            elif op == 'and': r = a & bb
            elif op == 'xor': r = a ^ bb
            elif op == 'lsh': r = a << (bb & (w - 1))
            elif op == 'rsh': r = a >> (bb & (w - 1))
            elif op == 'arsh': r = sx(a, w) >> (bb & (w - 1))
            elif op == 'mov': r = bb
            elif op == 'neg': r = -a
            regs[dst] = D if (op == 'mod' and bb == 0) else (r & mask)
        elif k == 'endian':
            if imm not in (16, 32, 64): return dict(status='illformed', reason='endian width')
            v = D & ((1 << imm) - 1)
            regs[dst] = int.from_bytes(v.to_bytes(imm // 8, 'little'), 'big') if i['be'] else v
        elif k == 'lddw':
            if pc + 1 >= n: return dict(status='illformed', reason='lddw at end')
            nb = prog[8 * pc + 8:8 * pc + 16]
            regs[dst] = (imm & 0xffffffff) | (int.from_bytes(nb[4:8], 'little') << 32); npc = pc + 2
        elif k == 'ja': npc = pc + 1 + off
        elif k == 'jcond':
            w = i['w']; mask = (1 << w) - 1
            a = D & mask; bb = (S if i['x'] else imm) & mask
            sa, sb = sx(a, w), sx(bb, w); op = i['op']
            t = {'jeq': a == bb, 'jne': a != bb, 'jgt': a > bb, 'jge': a >= bb, 'jlt': a < bb, 'jle': a <= bb, 'jset': (a & bb) != 0,
                 'jsgt': sa > sb, 'jsge': sa >= sb, 'jslt': sa < sb, 'jsle': sa <= sb}[op]
            if t: npc = pc + 1 + off
        elif k in ('ldabs', 'ldind', 'ldx'):
            sz = i['size']
            addr = ((me[0] + (imm & 0xffffffff) + (S if k == 'ldind' else 0)) if k != 'ldx' else (S + off)) & M64
            v = R.load(addr, sz)
            if v is None: return dict(status='err', reason=f'load refused at pc {pc} addr {addr:#x}')
            regs[0 if k != 'ldx' else dst] = v
        elif k in ('st', 'stx'):
            sz = i['size']; addr = (D + off) & M64
            if not R.store(addr, sz, (S if k == 'stx' else imm) & M64): return dict(status='err', reason=f'store refused at pc {pc} addr {addr:#x}')
        elif k == 'xadd':
            sz = i['size']; addr = (D + off) & M64
            old = R.load(addr, sz)
            if old is None: return dict(status='err', reason=f'atomic add refused at pc {pc}')
            if addr % sz: return dict(status='err', reason='misaligned atomic add')
            R.store(addr, sz, old + (S & ((1 << (8 * sz)) - 1)))
        elif k == 'call':
            if src == 0:
                key = imm & 0xffffffff
                if key not in helpers: return dict(status='err', reason=f'unknown helper {key:#x}')
                regs[0] = HELPERS[helpers[key]](regs[1:6]) & M64
            elif src == 1:
                if len(frames) >= 8: return dict(status='err', reason='call depth exceeded')
                sz = usage_of(cur_entry)
                frames.append((pc + 1, regs[6:10], sz, cur_entry))
                regs[10] = (regs[10] - sz) & M64
                npc = pc + 1 + imm; cur_entry = npc
            else: return dict(status='illformed', reason='call kind')
        elif k == 'tail_call': return dict(status='err', reason='tail call')
        elif k == 'exit':
            if not frames: return dict(status='ok', value=regs[0])
            ra, saved, sz, ent = frames.pop()
            regs[6:10] = saved; regs[10] = (regs[10] + sz) & M64; npc = ra; cur_entry = ent
        pc = npc


def wf(prog):
    """C06's statement, concretely: (True, None) or (False, reason)"""
    if len(prog) == 0 or len(prog) % 8: return False, 'length not a non-zero multiple of 8'
    n = len(prog) // 8
    if n > 1000000: return False, 'more than 1,000,000 instructions'
    opc_at = lambda j: prog[8 * j]
    starts = set(); i = 0
    while i < n:
        starts.add(i); i += 2 if prog[8 * i] == 0x18 else 1
    i = 0; last = None
    while i < n:
        b = prog[8 * i:8 * i + 8]; opc = b[0]; dst = b[1] & 15; src = b[1] >> 4
        off = sx(int.from_bytes(b[2:4], 'little'), 16); imm = sx(int.from_bytes(b[4:8], 'little'), 32)
        c = spec.classify(opc)
        if c is None: return False, f'unsupported opcode {opc:#x} at {i}'
        k, inf = c
        if k == 'tail_call': return False, f'tail call at {i}'
        if src > 10: return False, f'source register at {i}'
        store_cls = (opc & 7) in (spec.CLS_ST, spec.CLS_STX)
        if not (dst <= 9 or (dst == 10 and store_cls)): return False, f'destination register at {i}'
        def lands(t): return 0 <= t < n and prog[8 * t] != 0
        if k == 'lddw':
            if not (i + 1 < n and prog[8 * (i + 1)] == 0): return False, f'incomplete wide load at {i}'
        if k in ('ja', 'jcond'):
            if off == -1: return False, f'jump to itself at {i}'
            if not lands(i + 1 + off): return False, f'jump target of {i}'
        if k == 'call':
            if src not in (0, 1): return False, f'call kind at {i}'
            if src == 1 and not lands(i + 1 + imm): return False, f'call target of {i}'
        if k == 'endian' and imm not in (16, 32, 64): return False, f'byte-swap width at {i}'
        if k == 'xadd' and imm != 0: return False, f'atomic op at {i}'
        last = (i, k)
        i += 2 if k == 'lddw' else 1
    if last[1] not in ('exit', 'ja'): return False, 'last instruction is neither exit nor an unconditional jump'
    return True, None
