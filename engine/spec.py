"""Reference semantics of one eBPF instruction, transcribed from the property statements (C01, C02, C06, C07, C08),
NOT from rbpf's code.  Everything is z3 terms over a symbolic pre-state `S` (see interp.PreState)."""
from z3 import (BitVecVal, If, And, Or, Not, Extract, Concat, ZeroExt, SignExt, LShR, UDiv, URem, ULT, ULE, UGT, UGE,
                Select, Store, BoolVal)

CLS_LD, CLS_LDX, CLS_ST, CLS_STX, CLS_ALU, CLS_JMP, CLS_JMP32, CLS_ALU64 = range(8)
ALU_OPS = {0x00: 'add', 0x10: 'sub', 0x20: 'mul', 0x30: 'div', 0x40: 'or', 0x50: 'and', 0x60: 'lsh', 0x70: 'rsh',
           0x80: 'neg', 0x90: 'mod', 0xa0: 'xor', 0xb0: 'mov', 0xc0: 'arsh'}
JMP_OPS = {0x10: 'jeq', 0x20: 'jgt', 0x30: 'jge', 0x40: 'jset', 0x50: 'jne', 0x60: 'jsgt', 0x70: 'jsge', 0xa0: 'jlt',
           0xb0: 'jle', 0xc0: 'jslt', 0xd0: 'jsle'}
SIZES = {0x00: 4, 0x08: 2, 0x10: 1, 0x18: 8}     # BPF_W, BPF_H, BPF_B, BPF_DW


def classify(opc):
    """(kind, info) for every supported opcode, None for unsupported ones."""
    cls = opc & 7
    if cls in (CLS_ALU, CLS_ALU64):
        op = opc & 0xf0; x = bool(opc & 8); w = 64 if cls == CLS_ALU64 else 32
        if op in ALU_OPS:
            if ALU_OPS[op] == 'neg' and x: return None
            return ('alu', dict(op=ALU_OPS[op], x=x, w=w))
        if op == 0xd0 and cls == CLS_ALU: return ('endian', dict(be=x))
        return None
    if cls == CLS_JMP:
        if opc == 0x05: return ('ja', {})
        if opc == 0x85: return ('call', {})
        if opc == 0x8d: return ('tail_call', {})
        if opc == 0x95: return ('exit', {})
        op = opc & 0xf0
        if op in JMP_OPS: return ('jcond', dict(op=JMP_OPS[op], x=bool(opc & 8), w=64))
        return None
    if cls == CLS_JMP32:
        op = opc & 0xf0
        if op in JMP_OPS: return ('jcond', dict(op=JMP_OPS[op], x=bool(opc & 8), w=32))
        return None
    mode = opc & 0xe0; size = SIZES[opc & 0x18]
    if cls == CLS_LD:
        if opc == 0x18: return ('lddw', {})
        if mode == 0x20: return ('ldabs', dict(size=size))
        if mode == 0x40: return ('ldind', dict(size=size))
        return None
    if cls == CLS_LDX:
        if mode == 0x60: return ('ldx', dict(size=size))
        return None
    if cls == CLS_ST:
        if mode == 0x60: return ('st', dict(size=size))
        return None
    if cls == CLS_STX:
        if mode == 0x60: return ('stx', dict(size=size))
        if mode == 0xc0 and size in (4, 8): return ('xadd', dict(size=size))
        return None
    return None


SUPPORTED = [o for o in range(256) if classify(o) is not None]
VERIFIER_OK = [o for o in SUPPORTED if classify(o)[0] != 'tail_call']     # tail calls are refused at load time
MNEMONIC_HINT = {}


def opname(opc):
    c = classify(opc)
    if c is None: return f'op{opc:#04x}'
    k, i = c
    if k == 'alu': return f"{i['op']}{i['w']}_{'reg' if i['x'] else 'imm'}"
    if k == 'endian': return 'be' if i['be'] else 'le'
    if k == 'jcond': return f"{i['op']}{'32' if i['w'] == 32 else ''}_{'reg' if i['x'] else 'imm'}"
    if k in ('ldabs', 'ldind', 'ldx', 'st', 'stx', 'xadd'): return f"{k}{i['size']}"
    return k


def sel(regs, idx):
    """regs[idx] for a symbolic 64-bit idx (idx <= 10 assumed by the caller)"""
    r = regs[10]
    for k in range(9, -1, -1): r = If(idx == k, regs[k], r)
    return r


def upd(regs, idx, val):
    return [If(idx == k, val, regs[k]) for k in range(11)]


def load_le(M, addr, n):
    bs = [Select(M, addr + i) for i in range(n)]
    return bs[0] if n == 1 else Concat(*reversed(bs))


def store_le(M, addr, val, n):
    for i in range(n): M = Store(M, addr + i, Extract(8 * i + 7, 8 * i, val))
    return M


def zx(t): return ZeroExt(64 - t.size(), t) if t.size() < 64 else t


def bswap(t):
    n = t.size() // 8
    return Concat(*[Extract(8 * i + 7, 8 * i, t) for i in range(n)]) if n > 1 else t


def alu(op, w, a, b):
    """a, b: w-bit operands; returns w-bit result (div/mod by zero per the statement)."""
    mask = w - 1
    if op == 'add': return a + b
    if op == 'sub': return a - b
    if op == 'mul': return a * b
    if op == 'div': return If(b == 0, BitVecVal(0, w), UDiv(a, b))
    if op == 'mod': return If(b == 0, a, URem(a, b))
    if op == 'or': return a | b
    if op == 'and': return a & b
    if op == 'xor': return a ^ b
    if op == 'lsh': return a << (b & mask)
    if op == 'rsh': return LShR(a, b & mask)
    if op == 'arsh': return a >> (b & mask)
    if op == 'mov': return b
    if op == 'neg': return -a
    raise KeyError(op)


def cond(op, a, b):
    return {'jeq': lambda: a == b, 'jne': lambda: a != b, 'jgt': lambda: UGT(a, b), 'jge': lambda: UGE(a, b),
            'jlt': lambda: ULT(a, b), 'jle': lambda: ULE(a, b), 'jset': lambda: (a & b) != 0,
            'jsgt': lambda: a > b, 'jsge': lambda: a >= b, 'jslt': lambda: a < b, 'jsle': lambda: a <= b}[op]()


def in_region(addr, n, base, ln):
    """[addr, addr+n) inside [base, base+ln) without wrap-around (all 64-bit, n a python int)."""
    end = addr + n
    return And(ULE(base, addr), ULE(addr, end), ULE(end, base + ln), ULE(base, base + ln))


def access_ok(S, addr, n):
    """the C02 statement: all bytes inside packet data, metadata buffer, the 512-byte stack or a registered range."""
    cs = [in_region(addr, n, S.mem_base, S.mem_len), in_region(addr, n, S.mbuff_base, S.mbuff_len),
          in_region(addr, n, S.stack_base, BitVecVal(512, 64))]
    for (p, lo, hi) in S.ranges:
        cs.append(And(p, ULE(lo, addr), ULE(addr, addr + n), ULE(addr + n, hi)))
    return Or(*cs)


def frame_size(S, frame_usage):
    """frame size of a saved/current frame: 256 by default or the calculator's value"""
    d, v = frame_usage
    return If(d == 0, BitVecVal(256, 64), ZeroExt(48, v))


class Out:
    """outcome of one instruction under the reference semantics.
    kind: 'next' (state continues) | 'return' (program returns `value`) | 'error'
    For memory instructions `access` = (addr, nbytes, 'load'|'store'|'atomic') and the outcome given here is the one for
    an access that is allowed; `must_error` lists conditions under which the instruction must yield an error instead."""
    def __init__(self, **kw):
        self.kind = 'next'; self.regs = None; self.pc = None; self.M = None; self.value = None; self.access = None
        self.error_if = BoolVal(False); self.sfi = None; self.frames = None; self.call = None
        self.__dict__.update(kw)


def step(opc, S):
    """S: pre-state (regs[11], pc, dst, src (64-bit indices), off (16), imm (32), next_imm (32), M, sfi, frames, ...)."""
    k, i = classify(opc)
    regs, pc, M = S.regs, S.pc, S.M
    D = sel(regs, S.dst); Sr = sel(regs, S.src)
    imm64 = SignExt(32, S.imm); off64 = SignExt(48, S.off)
    o = Out(regs=list(regs), pc=pc + 1, M=M, sfi=S.sfi, frames=S.frames)
    if k == 'alu':
        w = i['w']
        if w == 64:
            b = Sr if i['x'] else imm64
            o.regs = upd(regs, S.dst, alu(i['op'], 64, D, b))
        else:
            b = Extract(31, 0, Sr) if i['x'] else S.imm
            res = ZeroExt(32, alu(i['op'], 32, Extract(31, 0, D), b))
            if i['op'] == 'mod': res = If(b == 0, D, res)      # "modulo by zero leaving the destination" (all 64 bits)
            o.regs = upd(regs, S.dst, res)
    elif k == 'endian':
        def conv(wd):
            t = Extract(wd - 1, 0, D)
            return zx(bswap(t) if i['be'] else t)
        o.regs = upd(regs, S.dst, If(S.imm == 16, conv(16), If(S.imm == 32, conv(32), conv(64))))
    elif k == 'lddw':
        o.regs = upd(regs, S.dst, Concat(S.next_imm, S.imm)); o.pc = pc + 2
    elif k == 'ja':
        o.pc = pc + 1 + off64
    elif k == 'jcond':
        if i['w'] == 64: a, b = D, (Sr if i['x'] else imm64)
        else: a, b = Extract(31, 0, D), (Extract(31, 0, Sr) if i['x'] else S.imm)
        o.taken = cond(i['op'], a, b)
        o.pc = If(o.taken, pc + 1 + off64, pc + 1)
    elif k in ('ldabs', 'ldind'):
        n = i['size']; addr = S.mem_base + ZeroExt(32, S.imm) + (Sr if k == 'ldind' else 0)
        o.access = (addr, n, 'load'); o.regs = upd(regs, BitVecVal(0, 64), zx(load_le(M, addr, n)))
    elif k == 'ldx':
        n = i['size']; addr = Sr + off64
        o.access = (addr, n, 'load'); o.regs = upd(regs, S.dst, zx(load_le(M, addr, n)))
    elif k == 'st':
        n = i['size']; addr = D + off64
        o.access = (addr, n, 'store'); o.M = store_le(M, addr, imm64, n)
    elif k == 'stx':
        n = i['size']; addr = D + off64
        o.access = (addr, n, 'store'); o.M = store_le(M, addr, Sr, n)
    elif k == 'xadd':
        n = i['size']; addr = D + off64
        o.access = (addr, n, 'atomic'); old = load_le(M, addr, n)
        o.M = store_le(M, addr, old + Extract(8 * n - 1, 0, Sr), n)
        o.error_if = URem(addr, BitVecVal(n, 64)) != 0          # misaligned atomic add is an interpreter error
    elif k == 'exit':
        o.kind = 'exit'      # depth 0: return r0 ; depth > 0: return from local call (see c07)
        o.value = regs[0]
    elif k == 'call':
        o.kind = 'call'
    elif k == 'tail_call':
        o.kind = 'error'
    return o
