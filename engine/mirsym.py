#!/usr/bin/env python3
"""mirsym -- symbolic execution of rustc MIR text (the subset rbpf compiles to) into z3 terms.

Input is the output of `cargo +nightly rustc --lib -- -Zunpretty=mir -C overflow-checks=on` run on
/repo's working tree.  Every function of the crate (private ones too) is available; callees of the
crate are inlined by executing their MIR, std/core callees are modelled by the intrinsic table
below, anything unknown raises Unsupported (the calling check turns that into exit 2).
"""
import re, hashlib, os, glob
from z3 import (BitVec, BitVecVal, BitVecSort, BoolVal, Bool, If, And, Or, Not, Xor, Select, Store, Extract,
                Concat, ZeroExt, SignExt, LShR, UDiv, URem, SRem, ULT, ULE, UGT, UGE, Solver, simplify,
                is_true, is_false, unsat, sat, unknown, BVMulNoOverflow, BVMulNoUnderflow, is_bv_value,
                BVAddNoOverflow, Array, Function, BoolSort, is_bv, is_bool)

INT_TYPES = {'u8': (8, False), 'u16': (16, False), 'u32': (32, False), 'u64': (64, False), 'usize': (64, False),
             'u128': (128, False), 'i8': (8, True), 'i16': (16, True), 'i32': (32, True), 'i64': (64, True),
             'isize': (64, True), 'i128': (128, True)}


class Unsupported(Exception):
    pass


# ------------------------------------------------------------------------------------------ text helpers
def split_top(s, sep=','):
    out = []; depth = 0; cur = []; i = 0; n = len(s)
    while i < n:
        c = s[i]
        if c == '"':
            j = i + 1
            while j < n and s[j] != '"':
                if s[j] == '\\': j += 1
                j += 1
            cur.append(s[i:j + 1]); i = j + 1; continue
        if c in '([{<': depth += 1
        elif c in ')]}>':
            if c == '>' and i > 0 and s[i - 1] in '-=': pass
            else: depth -= 1
        if c == sep and depth == 0:
            out.append(''.join(cur).strip()); cur = []
        else: cur.append(c)
        i += 1
    t = ''.join(cur).strip()
    if t: out.append(t)
    return out


def match_close(s, i):
    depth = 0; n = len(s)
    while i < n:
        c = s[i]
        if c == '"':
            i += 1
            while s[i] != '"':
                if s[i] == '\\': i += 1
                i += 1
        elif c in '([{': depth += 1
        elif c in ')]}':
            depth -= 1
            if depth == 0: return i
        i += 1
    raise ValueError('unbalanced ' + s)


def strip_generics(s):
    out = []; i = 0; n = len(s)
    while i < n:
        if s.startswith('::<', i) and not s.startswith('::<impl ', i):
            j = i + 3; depth = 1
            while depth > 0:
                c = s[j]
                if c == '<': depth += 1
                elif c == '>' and s[j - 1] != '-': depth -= 1
                j += 1
            i = j; continue
        out.append(s[i]); i += 1
    return ''.join(out)


class Place:
    __slots__ = ('local', 'proj')
    def __init__(self, local, proj): self.local = local; self.proj = proj
    def __repr__(self): return f'P({self.local},{self.proj})'


_place_cache = {}
def parse_place(s):
    s = s.strip()
    p = _place_cache.get(s)
    if p is None:
        p, i = _pp(s, 0)
        if i != len(s): raise Unsupported('place trailing: ' + s)
        _place_cache[s] = p
    return p


def _pp(s, i):
    if s[i] == '(':
        if s[i + 1] == '*':
            inner, j = _pp(s, i + 2)
            assert s[j] == ')', s
            p = Place(inner.local, inner.proj + [('deref',)]); j += 1
        else:
            inner, j = _pp(s, i + 1)
            if s.startswith(' as ', j):
                k = s.index(')', j)
                p = Place(inner.local, inner.proj + [('down', s[j + 4:k])]); j = k + 1
            elif s[j] == '.':
                m = re.match(r'\.(\d+): ', s[j:])
                fld = int(m.group(1)); k = j + m.end()
                end = match_close(s, i)
                ty = s[k:end]
                p = Place(inner.local, inner.proj + [('field', fld, ty)]); j = end + 1
            else: raise Unsupported('place: ' + s)
    else:
        m = re.match(r'_\d+', s[i:])
        if not m: raise Unsupported('place: ' + s[i:])
        p = Place(m.group(0), []); j = i + m.end()
    while j < len(s) and s[j] == '[':
        k = match_close(s, j); inner = s[j + 1:k]
        if re.fullmatch(r'_\d+', inner): p = Place(p.local, p.proj + [('index', inner)])
        else:
            m = re.fullmatch(r'(\d+) of (\d+)', inner)
            if m: p = Place(p.local, p.proj + [('cindex', int(m.group(1)))])
            else:
                m = re.fullmatch(r'(\d*):(-?\d*)', inner)   # subslice [a:b] / [a:-b]
                if m: p = Place(p.local, p.proj + [('subslice', m.group(1), m.group(2))])
                else: raise Unsupported('index: ' + inner)
        j = k + 1
    return p, j


class ProgOverlay:
    """concrete bytes of an immutable buffer (the eBPF program, a `&[u8]`) at base+0..: instruction fetches get constants"""
    immutable = True
    def __init__(self, base, data):
        self.rid, self.c0 = Engine.split_addr(base); self.data = bytes(data)
    def get(self, key, default=None):
        rid, c = key
        if rid != self.rid: return default
        i = (c - self.c0) % (1 << 64)
        if i < len(self.data): return BitVecVal(self.data[i], 8)
        return default
    def __bool__(self): return True


class Block:
    __slots__ = ('stmts', 'term', 'cleanup', 'pstmts')
    def __init__(self): self.stmts = []; self.term = None; self.cleanup = False; self.pstmts = None


class Func:
    def __init__(self, name, params, ret):
        self.name = name; self.params = params; self.ret = ret; self.locals = {}; self.blocks = {}; self.debug = {}
        self.text = ''
    def local_of(self, name):
        """MIR local bound to a source-level variable name (first binding)."""
        if name not in self.debug: raise Unsupported(f'no debug binding {name} in {self.name}')
        return self.debug[name][0]
    def succs(self, bb):
        t = self.blocks[bb].term or ''
        return [x for x in re.findall(r'bb\d+', t.split(' -> ', 1)[1] if ' -> ' in t else '') if not self.blocks[x].cleanup]
    def loop_heads(self):
        """targets of back edges in the non-cleanup CFG (iterative DFS)."""
        heads = []; color = {}; stack = [('bb0', iter(self.succs('bb0')))]; color['bb0'] = 1
        while stack:
            node, it = stack[-1]
            for s in it:
                if color.get(s, 0) == 0:
                    color[s] = 1; stack.append((s, iter(self.succs(s)))); break
                elif color[s] == 1 and s not in heads: heads.append(s)
            else:
                color[node] = 2; stack.pop()
        return heads
    def loop_body(self, head):
        """blocks that are reachable from head and can reach head."""
        fwd = set(); work = [head]
        while work:
            b = work.pop()
            for s in self.succs(b):
                if s not in fwd: fwd.add(s); work.append(s)
        preds = {}
        for b in self.blocks:
            if self.blocks[b].cleanup: continue
            for s in self.succs(b): preds.setdefault(s, []).append(b)
        bwd = set(); work = [head]
        while work:
            b = work.pop()
            for p in preds.get(b, []):
                if p not in bwd: bwd.add(p); work.append(p)
        return (fwd & bwd) | {head}
    def assigned_in(self, blocks):
        out = set()
        for b in blocks:
            blk = self.blocks[b]
            for s in blk.stmts:
                lhs = s.split(' = ', 1)[0]
                m = re.search(r'_\d+', lhs)
                if m: out.add(m.group(0))
            t = blk.term or ''
            m = re.match(r'(\(?\*?_\d+[^=]*?) = ', t)
            if m and not t.startswith(('switchInt', 'assert', 'goto', 'drop')):
                out.add(re.search(r'_\d+', m.group(1)).group(0))
        return out


def is_term(s):
    if s.startswith(('goto ->', 'switchInt(', 'assert(', 'return;', 'unreachable;', 'drop(', 'resume;', 'falseEdge',
                     'falseUnwind', 'abort', 'terminate')): return True
    if re.search(r'\) -> (\[return: bb\d+|bb\d+;|unwind )', s): return True
    return False


class Mir:
    def __init__(self, text):
        self.funcs = {}; self.consts = {}; self.by_last = {}
        self._parse(text)
        for n in self.funcs: self.by_last.setdefault(n.split('::')[-1], []).append(n)
    def _parse(self, text):
        lines = text.split('\n'); i = 0; n = len(lines)
        while i < n:
            l = lines[i]
            m = re.match(r'^const (.+): (.+?) = const (.+);$', l)
            if m: self.consts[m.group(1)] = (m.group(3), m.group(2)); i += 1; continue
            m = re.match(r'^(fn|const|static) (.+) \{$', l)
            if m and (m.group(1) == 'fn' or ' = ' in l):
                start = i
                if m.group(1) == 'fn':
                    o = l.index('('); c = match_close(l, o)
                    name = l[3:o]; params = []
                    retty = l[c + 5:-2] if l[c + 1:c + 5] == ' -> ' else '()'
                    for p in split_top(l[o + 1:c]):
                        pm = re.match(r"(?:mut )?(_\d+): (.+)", p)
                        if not pm: raise Unsupported('param? ' + repr(p))
                        params.append((pm.group(1), pm.group(2)))
                    f = Func(name, params, retty)
                else:
                    hm = re.match(r'^(?:const|static) (?:mut )?(.+): (.+?) = \{$', l)
                    f = Func(hm.group(1), [], hm.group(2))
                for a, b in f.params: f.locals[a] = b
                i += 1; cur = None
                while lines[i] != '}':
                    s = lines[i].strip()
                    lm = re.match(r'let (?:mut )?(_\d+): (.+);$', s)
                    if lm: f.locals[lm.group(1)] = lm.group(2)
                    dm = re.match(r'debug (\w+) => (.+);$', s)
                    if dm: f.debug.setdefault(dm.group(1), []).append(dm.group(2))
                    bm = re.match(r'(bb\d+)(?: \(cleanup\))?: \{$', s)
                    if bm:
                        cur = Block(); cur.cleanup = 'cleanup' in s; f.blocks[bm.group(1)] = cur
                    elif cur is not None and s and s != '}' and not s.startswith(('scope', 'debug', 'let ')):
                        if s.startswith(('StorageLive', 'StorageDead', 'nop', 'FakeRead', 'Retag', 'PlaceMention',
                                         'Coverage', 'ConstEvalCounter', 'AscribeUserType', '//')): pass
                        elif is_term(s): cur.term = s
                        else: cur.stmts.append(s)
                    i += 1
                f.text = '\n'.join(lines[start:i + 1])
                if m.group(1) == 'fn':
                    if f.name in self.funcs:      # const fn printed twice (runtime + const-eval MIR): keep first
                        pass
                    else: self.funcs[f.name] = f
                else: self.consts[f.name] = f
            i += 1
    def fn_hash(self, name):
        return hashlib.sha256(self.funcs[name].text.encode()).hexdigest()[:16]
    def find(self, last, must_contain=None):
        c = [n for n in self.by_last.get(last, []) if must_contain is None or must_contain in n]
        if len(c) != 1: raise Unsupported(f'function {last} ({must_contain}): {len(c)} candidates')
        return self.funcs[c[0]]


# ------------------------------------------------------------------------------------------ source type table
class TypeTable:
    """struct field types and enum variant lists, scraped from /repo/src/*.rs (needed to build symbolic values of
    a declared type and to number enum variants -- MIR text does not carry declarations)."""
    def __init__(self, srcdir):
        self.structs = {}; self.struct_cfg = {}; self.enums = {
            'Option': [('None', []), ('Some', ['T'])], 'Result': [('Ok', ['T']), ('Err', ['E'])],
            'ControlFlow': [('Continue', ['C']), ('Break', ['B'])]}
        for path in sorted(glob.glob(os.path.join(srcdir, '*.rs'))):
            src = open(path).read()
            src = re.sub(r'//[^\n]*', '', src)
            for m in re.finditer(r'\benum\s+(\w+)\s*(?:<[^>]*>)?\s*\{', src):
                body = src[m.end():match_close(src, m.end() - 1)]
                vs = []
                for v in split_top(body):
                    v = re.sub(r'#\[[^\]]*\]', '', v).strip()
                    if not v: continue
                    vm = re.match(r'(\w+)\s*(?:\((.*)\))?\s*(?:=\s*(.+))?$', v, re.S)
                    if not vm: raise Unsupported('enum variant ' + v)
                    vs.append((vm.group(1), [x.strip() for x in split_top(vm.group(2))] if vm.group(2) else [],
                               vm.group(3)))
                self.enums[m.group(1)] = vs
            for m in re.finditer(r'\bstruct\s+(\w+)\s*(?:<[^>]*>)?\s*\{', src):
                body = src[m.end():match_close(src, m.end() - 1)]
                fs = []
                cf = []
                for v in split_top(body):
                    cfgs = re.findall(r'#\[cfg\((.*?)\)\]\s*(?=#|pub|\w)', v, re.S)
                    v = re.sub(r'#\[[^\]]*\]', '', v).strip()
                    if not v: continue
                    fm = re.match(r'(?:pub(?:\([^)]*\))?\s+)?(\w+)\s*:\s*(.+)$', v, re.S)
                    if fm: fs.append((fm.group(1), fm.group(2).strip())); cf.append((fm.group(1), cfgs))
                self.structs[m.group(1)] = fs; self.struct_cfg[m.group(1)] = cf
    @staticmethod
    def cfg_eval(expr, features):
        """value of a cfg predicate for a feature set (target: linux, not windows)"""
        e = expr.strip()
        m = re.fullmatch(r'(not|all|any)\((.*)\)', e, re.S)
        if m:
            parts = [TypeTable.cfg_eval(x, features) for x in split_top(m.group(2)) if x.strip()]
            return (not parts[0]) if m.group(1) == 'not' else (all(parts) if m.group(1) == 'all' else any(parts))
        m = re.fullmatch(r'feature\s*=\s*"([^"]+)"', e)
        if m: return m.group(1) in features
        if e in ('windows', 'test', 'rbpf_verif', 'kani'): return False
        if e in ('unix',) or e.startswith('target_'): return True
        raise Unsupported('cfg predicate ' + e)
    def field_names(self, struct, features):
        """declaration-order field names of a struct under a feature set (MIR numbers fields after cfg stripping)"""
        st = struct.split('::')[-1].split('<')[0]
        if st not in self.struct_cfg: return None
        return [n for n, cfgs in self.struct_cfg[st] if all(self.cfg_eval(c, features) for c in cfgs)]
    def variant_index(self, name, enum_hint=None):
        if enum_hint:
            e = enum_hint.split('::')[-1].split('<')[0]
            if e in self.enums:
                for i, v in enumerate(self.enums[e]):
                    if v[0] == name: return i
        hits = [(e, i) for e, vs in self.enums.items() for i, v in enumerate(vs) if v[0] == name]
        if len(hits) == 1: return hits[0][1]
        if len(set(i for _, i in hits)) == 1 and hits: return hits[0][1]
        raise Unsupported(f'variant {name} (hint {enum_hint}): {hits}')
    def discr_value(self, enum, idx):
        """explicit discriminant (C-like enums with `= value`), else the index"""
        v = self.enums[enum][idx]
        if len(v) > 2 and v[2]:
            try: return int(v[2].strip(), 0)
            except ValueError: return None
        return idx


# ------------------------------------------------------------------------------------------ values
class V:
    __slots__ = ('t', 'ty')
    def __init__(s, t, ty): s.t = t; s.ty = ty
    def __repr__(s): return f'V({s.t}:{s.ty})'
class Agg:
    __slots__ = ('f', 'ty', 'kind')
    def __init__(s, f, ty='', kind='tuple'): s.f = f; s.ty = ty; s.kind = kind
    def __repr__(s): return f'Agg{s.f}'
class Enum:
    __slots__ = ('d', 'payload', 'ty')
    def __init__(s, d, payload, ty=''): s.d = d; s.payload = payload; s.ty = ty
    def disc(s): return s.d if not isinstance(s.d, int) else BitVecVal(s.d, 64)
    def __repr__(s): return f'Enum({s.d},{s.payload})'
class Ref:
    __slots__ = ('frame', 'local', 'proj')
    def __init__(s, frame, local, proj): s.frame = frame; s.local = local; s.proj = proj
    def __repr__(s): return f'Ref({s.local},{s.proj})'
class Slice:
    __slots__ = ('base', 'len', 'ety')
    def __init__(s, base, len_, ety='u8'): s.base = base; s.len = len_; s.ety = ety
    def __repr__(s): return f'Slice({s.base},{s.len})'
class Ptr:
    __slots__ = ('addr', 'ty')
    def __init__(s, addr, ty): s.addr = addr; s.ty = ty
    def __repr__(s): return f'Ptr({s.addr}:{s.ty})'
class Opaque:
    __slots__ = ('tag', 'args')
    def __init__(s, tag, args=()): s.tag = tag; s.args = args
    def __repr__(s): return f'Opaque({s.tag})'
class Closure:
    __slots__ = ('cid', 'f')
    def __init__(s, cid, f): s.cid = cid; s.f = f
class LazyObj:
    """a struct (or a reference to one) whose fields become symbolic values on first access; field types come from the
    projection text of the MIR itself (`((*_1).3: Option<&[u8]>)`), so no declaration of the struct is needed"""
    __slots__ = ('name', 'fields', 'ty', 'ftys')
    def __init__(s, name, ty='', fields=None, ftys=None): s.name = name; s.ty = ty; s.fields = dict(fields or {}); s.ftys = dict(ftys or {})
    def __repr__(s): return f'LazyObj({s.name}:{s.ty})'


class Str:
    """a &str / &[u8; N] constant"""
    __slots__ = ('s',)
    def __init__(s, v): s.s = v
    def __repr__(s): return f'Str({s.s!r})'


def bvw(ty):
    if ty in INT_TYPES: return INT_TYPES[ty]
    if ty == 'bool': return (1, False)
    if ty == 'char': return (32, False)
    raise Unsupported('int type ' + ty)


def ite_val(c, a, b):
    if a is b: return a
    if isinstance(a, V) and isinstance(b, V):
        if a.t is b.t: return a
        return V(If(c, a.t, b.t), a.ty)
    if isinstance(a, Agg) and isinstance(b, Agg) and len(a.f) == len(b.f):
        return Agg([ite_val(c, x, y) for x, y in zip(a.f, b.f)], a.ty, a.kind)
    if isinstance(a, Enum) and isinstance(b, Enum):
        pl = {}
        for k in set(a.payload) | set(b.payload):
            if k in a.payload and k in b.payload: pl[k] = [ite_val(c, x, y) for x, y in zip(a.payload[k], b.payload[k])]
            else: pl[k] = a.payload.get(k) or b.payload.get(k)
        if isinstance(a.d, int) and isinstance(b.d, int) and a.d == b.d: return Enum(a.d, pl, a.ty)
        return Enum(If(c, a.disc(), b.disc()), pl, a.ty)
    if isinstance(a, Opaque) and isinstance(b, Opaque): return a
    if isinstance(a, LazyObj) and isinstance(b, LazyObj):
        return LazyObj(a.name, a.ty, {k: ite_val(c, a.fields.get(k), b.fields.get(k)) for k in set(a.fields) | set(b.fields)}, {**a.ftys, **b.ftys})
    if isinstance(a, Slice) and isinstance(b, Slice): return Slice(If(c, a.base, b.base), If(c, a.len, b.len), a.ety)
    if isinstance(a, Ptr) and isinstance(b, Ptr): return Ptr(If(c, a.addr, b.addr), a.ty)
    if a is None: return b
    if b is None: return a
    raise Unsupported(f'ite_val {a} {b}')


# ------------------------------------------------------------------------------------------ machine
class Frame:
    __slots__ = ('func', 'locals', 'bb', 'ret_place', 'ret_bb', 'tag')
    def __init__(s, func, ret_place=None, ret_bb=None):
        s.func = func; s.locals = {}; s.bb = 'bb0'; s.ret_place = ret_place; s.ret_bb = ret_bb; s.tag = None


class State:
    def __init__(s):
        s.frames = []; s.pc = []; s.mem = None; s.log = []; s.events = []; s.visits = {}; s.aux = {}
    def fork(s):
        t = State(); t.pc = list(s.pc); t.mem = s.mem; t.log = list(s.log); t.events = list(s.events)
        t.visits = dict(s.visits); t.aux = dict(s.aux)
        mp = {}
        for f in s.frames:
            g = Frame(f.func, f.ret_place, f.ret_bb); g.bb = f.bb; g.tag = f.tag; mp[id(f)] = g; t.frames.append(g)
        def fix(v):
            if isinstance(v, Ref): return Ref(mp.get(id(v.frame), v.frame), v.local, v.proj)
            if isinstance(v, Agg): return Agg([fix(x) for x in v.f], v.ty, v.kind)
            if isinstance(v, Enum): return Enum(v.d, {k: [fix(x) for x in p] for k, p in v.payload.items()}, v.ty)
            if isinstance(v, Closure): return Closure(v.cid, [fix(x) for x in v.f])
            if isinstance(v, Opaque) and v.args: return Opaque(v.tag, tuple(fix(x) for x in v.args))
            if isinstance(v, LazyObj): return LazyObj(v.name, v.ty, {k: fix(x) for k, x in v.fields.items()}, v.ftys)
            return v
        for f in s.frames:
            g = mp[id(f)]
            g.locals = {k: fix(v) for k, v in f.locals.items()}
        return t


class Path:
    __slots__ = ('kind', 'payload', 'st')
    def __init__(s, kind, payload, st): s.kind = kind; s.payload = payload; s.st = st


PANIC_FNS = ('panic', 'core::panicking::panic', 'panic_fmt', 'core::panicking::panic_fmt', 'std::rt::panic_fmt',
             'core::panicking::unreachable_display', 'core::panicking::panic_explicit', 'std::rt::begin_panic',
             'core::panicking::assert_failed', 'assert_failed', 'core::panicking::panic_display',
             'core::option::unwrap_failed', 'core::result::unwrap_failed', 'core::panicking::panic_nounwind',
             'core::option::expect_failed', 'core::slice::index::slice_index_fail')


class Engine:
    def __init__(self, mir, types, solver_timeout_ms=20000):
        self.mir = mir; self.funcs = mir.funcs; self.consts = mir.consts; self.types = types
        self.solver = Solver(); self.solver.set('timeout', solver_timeout_ms)
        self.fresh = 0; self.results = []; self.cuts = set(); self.stubs = []; self.used_funcs = set()
        self._stack = []; self.memo = {}; self.base_n = 0
        self.stats = {'sat_calls': 0, 'paths': 0, 'unknown': 0}
        self.summarize = set()      # names (last path component) of pure crate callees to summarise
        self.ctx = {}
        self.overflow_panics = True  # dev profile: arithmetic overflow asserts are panics
        self.max_paths = 200000
    # ---- helpers
    def sym(self, name, w):
        self.fresh += 1; return BitVec(f'{name}!{self.fresh}', w)
    def _sync(self, pc):
        """make the solver's assertion stack equal to the list pc (one push level per constraint), re-using the
        longest common prefix with what is already asserted (DFS order makes that prefix long)."""
        stk = self._stack; n = 0; m = min(len(stk), len(pc))
        while n < m and stk[n] == pc[n].get_id(): n += 1
        if n < len(stk):
            self.solver.pop(len(stk) - n); del stk[n:]
        for c in pc[n:]:
            self.solver.push(); self.solver.add(c); stk.append(c.get_id())
    def feasible(self, st, cond):
        c = simplify(cond)
        if is_true(c): return True
        if is_false(c): return False
        self.stats['sat_calls'] += 1
        self._sync(st.pc)
        self.solver.push(); self.solver.add(c)
        lr = self.ctx.get('lazy_ranges')
        if lr: self.solver.add(*lr)            # discriminants of lazily materialised Option/enum fields are in range
        r = self.solver.check(); self.solver.pop()
        if r == unknown: self.stats['unknown'] += 1
        return r != unsat
    def add_stub(self, pattern, handler):
        """handler(eng, st, fr, callee, args, R) -> result of R(value) / None (path ended) / NotImplemented"""
        self.stubs.append((re.compile(pattern), handler))
    def finish(self, st, kind, payload=None):
        self.stats['paths'] += 1
        if self.stats['paths'] > self.max_paths: raise Unsupported('path budget exceeded')
        self.results.append(Path(kind, payload, st))
    def panic_if(self, st, fr, cond, msg):
        """fork a panic path when cond is feasible; constrain st to Not(cond). Returns False if st itself is dead."""
        if self.feasible(st, cond):
            s2 = st.fork(); s2.pc.append(simplify(cond)); self.finish(s2, 'panic', (msg, fr.func.name, fr.bb))
        nc = Not(cond)
        if not self.feasible(st, nc): return False
        st.pc.append(simplify(nc)); return True
    # ---- symbolic values from a declared type
    def fresh_of_type(self, ty, name):
        ty = ty.strip()
        if ty in INT_TYPES: return V(BitVec(name, INT_TYPES[ty][0]), ty)
        if ty == 'bool': return V(Bool(name), 'bool')
        m = re.fullmatch(r'\[(.+); (\d+)\]', ty)
        if m: return Agg([self.fresh_of_type(m.group(1), f'{name}_{i}') for i in range(int(m.group(2)))], ty, 'array')
        if ty.startswith('(') and ty.endswith(')'):
            return Agg([self.fresh_of_type(t, f'{name}_{i}') for i, t in enumerate(split_top(ty[1:-1]))], ty)
        base = ty.split('::')[-1].split('<')[0]
        if base in self.types.structs:
            return Agg([self.fresh_of_type(t, f'{name}_{fn}') for fn, t in self.types.structs[base]], base, 'struct')
        if base in self.types.enums and base not in ('Option', 'Result', 'ControlFlow'):
            vs = self.types.enums[base]
            d = BitVec(name + '_d', 64)
            pl = {i: [self.fresh_of_type(t, f'{name}_v{i}_{j}') for j, t in enumerate(v[1])] for i, v in enumerate(vs)}
            self.ctx.setdefault('enum_ranges', []).append(ULT(d, len(vs)))
            return Enum(d, pl, base)
        raise Unsupported('fresh_of_type ' + ty)
    def lazy_field(self, obj, idx):
        """symbol-name component for field idx of a lazily materialised struct: the index, or (ctx['lazy_field_names'] = feature set) the declared field name, which is stable across feature sets"""
        feats = self.ctx.get('lazy_field_names')
        if feats is not None and obj.ty:
            names = self.types.field_names(re.sub(r"^&('\w+\s+)?(mut\s+)?", '', obj.ty.strip()), feats)
            if names and idx < len(names): return names[idx]
        return idx
    def fresh_lazy(self, ty, name):
        """symbolic value of a type named in MIR text (used for lazily materialised struct fields)"""
        ty = ty.strip()
        ty = re.sub(r"^&('\w+\s+)?(mut\s+)?", '', ty) if ty.startswith('&') and not ty.startswith(('&[', '&mut [', "&'a [", "&'a mut [")) else ty
        if ty in INT_TYPES: return V(BitVec(name, INT_TYPES[ty][0]), ty)
        if ty == 'bool': return V(Bool(name), 'bool')
        m = re.fullmatch(r"(?:&(?:'\w+ )?(?:mut )?)\[(\w+)\]", ty)
        if m: return Slice(BitVec(name + '.ptr', 64), BitVec(name + '.len', 64), m.group(1))
        m = re.fullmatch(r'(?:std::vec::|alloc::vec::)?Vec<(\w+)>', ty)
        if m: return Slice(BitVec(name + '.ptr', 64), BitVec(name + '.len', 64), m.group(1))
        m = re.fullmatch(r'(?:std::option::|core::option::)?Option<(.+)>', ty)
        if m:
            d = BitVec(name + '.is_some', 64); self.ctx.setdefault('lazy_ranges', []).append(ULT(d, 2))
            return Enum(d, {0: [], 1: [self.fresh_lazy(m.group(1), name + '.some')]}, 'Option')
        m = re.fullmatch(r'\[(.+); (\d+)\]', ty)
        if m: return Agg([self.fresh_lazy(m.group(1), f'{name}[{i}]') for i in range(int(m.group(2)))], ty, 'array')
        if ty.startswith(('fn(', 'for<', 'unsafe fn(', 'extern ')): return Opaque('fnptr', (name,))
        return LazyObj(name, ty)
    # ---- constants
    def const(self, s, ty_hint=None):
        s = s.strip()
        m = re.fullmatch(r'(-?\d+)_(\w+)', s)
        if m: w, _ = bvw(m.group(2)); return V(BitVecVal(int(m.group(1)), w), m.group(2))
        if s in ('true', 'false'): return V(BoolVal(s == 'true'), 'bool')
        if s == '()': return Agg([], '()')
        if s.startswith('"'): return Str(_unescape(s[1:-1]))
        if s.startswith('b"'): return Str(_unescape(s[2:-1]))
        m = re.fullmatch(r"'(.)'", s)
        if m: return V(BitVecVal(ord(m.group(1)), 32), 'char')
        m = re.fullmatch(r"b'(\\?.)'", s)
        if m: return V(BitVecVal(ord(_unescape(m.group(1))), 8), 'u8')
        name = re.sub(r'^(ebpf|jit|crate)::', '', s)
        for k in (s, name):
            if k in self.consts:
                c = self.consts[k]
                if isinstance(c, tuple): return self.const(c[0])
                return self.eval_const_body(c)
        m = re.fullmatch(r'(?:core::num::<impl )?(\w+)>?::(MIN|MAX|BITS)', s)
        if m and m.group(1) in INT_TYPES:
            w, sg = INT_TYPES[m.group(1)]
            if m.group(2) == 'BITS': return V(BitVecVal(w, 32), 'u32')
            val = {(True, 'MIN'): -(1 << (w - 1)), (True, 'MAX'): (1 << (w - 1)) - 1, (False, 'MIN'): 0,
                   (False, 'MAX'): (1 << w) - 1}[(sg, m.group(2))]
            return V(BitVecVal(val, w), m.group(1))
        last = s.split('::')[-1]
        cands = [k for k in self.consts if k.split('::')[-1] == last]
        if len(cands) > 1 and last.startswith('promoted['):
            # promoted constants are printed with the type path at the use and with the impl location at the definition
            cur = getattr(self, '_cur_fn', '')
            c2 = [k for k in cands if k.rsplit('::', 1)[0] == cur]
            if c2: cands = c2
        if len(cands) > 1: cands = [k for k in cands if s.endswith(k)]
        if len(cands) == 1:
            c = self.consts[cands[0]]
            if isinstance(c, tuple): return self.const(c[0])
            return self.eval_const_body(c)
        # unit-like enum variant / unit struct / fn item used as a value
        if re.fullmatch(r'[\w:<>]+', s):
            lastc = s.split('::')[-1]
            if lastc and lastc[0].isupper():
                try:
                    enum_hint = s.split('::')[-2] if '::' in s else None
                    vi = self.types.variant_index(lastc, enum_hint); return Enum(vi, {vi: []}, enum_hint or '')
                except Unsupported: pass
            return Opaque('fnitem', (s,))
        if s.startswith('{closure@') or s.startswith('ZeroSized') or '{closure#' in s: return Opaque('fnitem', (s,))
        raise Unsupported('const ' + s)
    def eval_const_body(self, f):
        key = ('constval', f.name)
        if key in self.ctx: return self.ctx[key]
        try: return self._eval_const_body(f, key)
        except Unsupported:
            # a constant this executor cannot evaluate (thread-local keys, vtables ...): opaque unless somebody looks inside
            self.ctx[key] = Opaque('const', (f.name,)); return self.ctx[key]
    def _eval_const_body(self, f, key):
        st = State(); fr = Frame(f); st.frames.append(fr)
        saved = (self.results, self.cuts); self.results = []; self.cuts = set()
        try: self.run(st)
        finally: res = self.results; self.results, self.cuts = saved
        rets = [p.payload for p in res if p.kind == 'return']
        if len(rets) != 1: raise Unsupported('const body eval ' + f.name)
        self.ctx[key] = rets[0]; return rets[0]
    # ---- places
    def read_local(self, fr, name):
        if name not in fr.locals: raise Unsupported(f'read of unset {name} in {fr.func.name}')
        return fr.locals[name]
    def resolve(self, st, fr, pl):
        frame = fr; local = pl.local; proj = []
        for p in pl.proj:
            if p[0] == 'deref':
                v = self.get(st, frame, local, proj)
                if isinstance(v, Ref): frame, local, proj = v.frame, v.local, list(v.proj)
                elif isinstance(v, (Ptr, Slice)): proj = proj + [('memderef', v)]
                elif isinstance(v, LazyObj): pass          # a reference to a lazily materialised struct: same object
                elif isinstance(v, (Opaque, Str)): proj = proj + [('opq', v)]
                else: raise Unsupported(f'deref of {v}')
            elif p[0] == 'index':
                idx = self.read_local(fr, p[1]); proj = proj + [('index', idx.t)]
            else: proj = proj + [p]
        return frame, local, proj
    def get(self, st, frame, local, proj):
        v = self.read_local(frame, local)
        for p in proj:
            k = p[0]
            if k == 'field':
                if isinstance(v, (Agg, Closure)):
                    if p[1] >= len(v.f): raise Unsupported(f'field {p[1]} of {v}')
                    v = v.f[p[1]]
                elif isinstance(v, LazyObj):
                    if p[1] not in v.fields: v.fields[p[1]] = self.fresh_lazy(p[2], f'{v.name}.{self.lazy_field(v, p[1])}')
                    v.ftys[p[1]] = p[2]
                    v = v.fields[p[1]]
                elif isinstance(v, Opaque): v = Opaque('field', (v, p[1]))
                elif isinstance(v, Slice) and p[1] == 0: v = Ptr(v.base, v.ety)
                else: raise Unsupported(f'field of {v}')
            elif k == 'down':
                vi = self.types.variant_index(p[1], getattr(v, 'ty', None))
                if vi not in v.payload: raise Unsupported(f'downcast to absent variant {p[1]} of {v}')
                v = Agg(v.payload[vi], 'variant')
            elif k == 'cindex': v = v.f[p[1]]
            elif k == 'index':
                idx = p[1]
                if isinstance(v, Slice):
                    v = self.load(st, v.base + idx * (bvw(v.ety)[0] // 8), v.ety, 'sliceread'); continue
                els = v.f
                sidx = simplify(idx)
                if is_bv_value(sidx):
                    v = els[sidx.as_long()]
                else:
                    r = els[-1]
                    for i in range(len(els) - 2, -1, -1): r = ite_val(idx == i, els[i], r)
                    v = r
            elif k == 'memderef':
                ptr = p[1]
                if isinstance(ptr, Ptr): v = self.load(st, ptr.addr, ptr.ty, 'read')
                else: v = ptr
            elif k == 'opq': v = p[1]
            else: raise Unsupported('proj ' + k)
        return v
    def put(self, st, frame, local, proj, val):
        if not proj: frame.locals[local] = val; return
        def upd(v, proj):
            if not proj: return val
            p = proj[0]; k = p[0]
            if k == 'field':
                if isinstance(v, Agg):
                    f = list(v.f)
                    while len(f) <= p[1]: f.append(None)
                    f[p[1]] = upd(f[p[1]], proj[1:]); return Agg(f, v.ty, v.kind)
                if isinstance(v, LazyObj):
                    if p[1] not in v.fields and len(proj) > 1: v.fields[p[1]] = self.fresh_lazy(p[2], f'{v.name}.{self.lazy_field(v, p[1])}')
                    nf = dict(v.fields); nf[p[1]] = upd(nf.get(p[1]), proj[1:]); nt = dict(v.ftys); nt[p[1]] = p[2]; return LazyObj(v.name, v.ty, nf, nt)
                if v is None:
                    f = [None] * (p[1] + 1); f[p[1]] = upd(None, proj[1:]); return Agg(f)
                raise Unsupported(f'put field of {v}')
            if k == 'cindex':
                f = list(v.f); f[p[1]] = upd(f[p[1]], proj[1:]); return Agg(f, v.ty, v.kind)
            if k == 'index':
                idx = p[1]
                if isinstance(v, Slice):
                    assert len(proj) == 1
                    self.store(st, v.base + idx * (bvw(v.ety)[0] // 8), val, 'slicewrite'); return v
                sidx = simplify(idx)
                if is_bv_value(sidx):
                    f = list(v.f); i = sidx.as_long(); f[i] = upd(f[i], proj[1:]); return Agg(f, v.ty, v.kind)
                f = []
                for i, e in enumerate(v.f):
                    ne = upd(e, proj[1:]); f.append(ite_val(idx == i, ne, e))
                return Agg(f, v.ty, v.kind)
            if k == 'down':
                vi = self.types.variant_index(p[1], getattr(v, 'ty', None)); pl = dict(v.payload)
                pl[vi] = upd(Agg(pl.get(vi, [])), proj[1:]).f; return Enum(v.d, pl, v.ty)
            if k == 'memderef':
                ptr = p[1]
                if len(proj) != 1: raise Unsupported('projection below memory deref on write')
                self.store(st, ptr.addr if isinstance(ptr, Ptr) else ptr.base, val, 'write'); return v
            raise Unsupported('put proj ' + k)
        base = frame.locals.get(local)
        frame.locals[local] = upd(base, proj)
    def rd(self, st, fr, pl):
        f, l, p = self.resolve(st, fr, pl); return self.get(st, f, l, p)
    def wr(self, st, fr, pl, val):
        f, l, p = self.resolve(st, fr, pl); self.put(st, f, l, p, val)
    def deref(self, st, v):
        while isinstance(v, Ref): v = self.get(st, v.frame, v.local, v.proj)
        return v
    # ---- memory
    @staticmethod
    def split_addr(a):
        """simplified address -> (id of symbolic part, constant offset)"""
        a = simplify(a)
        if is_bv_value(a): return (0, a.as_long())
        if a.num_args() >= 2 and a.decl().name() == 'bvadd' and is_bv_value(a.arg(0)):
            c = a.arg(0).as_long(); rest = simplify(a - a.arg(0))
            return (rest.get_id(), c)
        return (a.get_id(), 0)
    @staticmethod
    def make_overlay(base, byte_terms):
        """name the bytes at base+0.. so that loads at syntactically matching addresses return them directly"""
        rid, c = Engine.split_addr(base)
        return {(rid, (c + i) % (1 << 64)): b for i, b in enumerate(byte_terms)}
    def load(self, st, addr, ty, kind):
        w, _ = bvw(ty); n = w // 8
        st.log.append((kind, addr, n))
        if st.mem is None: raise Unsupported('memory access without memory')
        ov = st.aux.get('overlay')
        bs = []
        if ov:
            rid, c = self.split_addr(addr)
            for i in range(n):
                b = ov.get((rid, (c + i) % (1 << 64)))
                bs.append(b if b is not None else Select(st.mem, addr + i))
        else:
            bs = [Select(st.mem, addr + i) for i in range(n)]
        t = bs[0] if n == 1 else simplify(Concat(*reversed(bs)))
        return V(t, ty)
    def store(self, st, addr, val, kind):
        w, _ = bvw(val.ty); n = w // 8
        st.log.append((kind, addr, n))
        st.aux['writes'] = st.aux.get('writes', ()) + ((addr, val.t, n),)
        if not getattr(st.aux.get('overlay'), 'immutable', False):
            st.aux['overlay'] = None      # named bytes may be overwritten: fall back to the array
        for i in range(n): st.mem = Store(st.mem, addr + i, Extract(8 * i + 7, 8 * i, val.t))
    # ---- operands / rvalues
    def operand(self, st, fr, s):
        s = s.strip()
        if s.startswith('no_retag '): s = s[9:]
        if s.startswith(('copy ', 'move ')): return self.rd(st, fr, parse_place(s[5:]))
        if s.startswith('const '): return self.const(s[6:])
        raise Unsupported('operand ' + s)
    def binop(self, op, a, b):
        if isinstance(a, Opaque) or isinstance(b, Opaque): return Opaque('binop', (op, a, b))     # over an external constant the dump does not evaluate
        ty = a.ty
        if isinstance(a, Ptr) and isinstance(b, Ptr):
            a = V(a.addr, 'usize'); b = V(b.addr, 'usize'); ty = 'usize'
        if ty == 'bool':
            x, y = a.t, b.t
            return {'BitAnd': lambda: V(And(x, y), 'bool'), 'BitOr': lambda: V(Or(x, y), 'bool'),
                    'BitXor': lambda: V(Xor(x, y), 'bool'), 'Eq': lambda: V(x == y, 'bool'),
                    'Ne': lambda: V(x != y, 'bool')}[op]()
        w, sg = bvw(ty); x, y = a.t, b.t
        if op in ('Shl', 'Shr', 'ShlUnchecked', 'ShrUnchecked'):
            wy = y.size()
            if wy < w: y = ZeroExt(w - wy, y)
            elif wy > w: y = Extract(w - 1, 0, y)
            y = y & (w - 1)
            if op.startswith('Shl'): return V(x << y, ty)
            return V((x >> y) if sg else LShR(x, y), ty)
        if op in ('Add', 'AddUnchecked'): return V(x + y, ty)
        if op in ('Sub', 'SubUnchecked'): return V(x - y, ty)
        if op in ('Mul', 'MulUnchecked'): return V(x * y, ty)
        if op == 'Div': return V((x / y) if sg else UDiv(x, y), ty)
        if op == 'Rem': return V(SRem(x, y) if sg else URem(x, y), ty)
        if op == 'BitAnd': return V(x & y, ty)
        if op == 'BitOr': return V(x | y, ty)
        if op == 'BitXor': return V(x ^ y, ty)
        if op == 'Eq': return V(x == y, 'bool')
        if op == 'Ne': return V(x != y, 'bool')
        if op == 'Lt': return V((x < y) if sg else ULT(x, y), 'bool')
        if op == 'Le': return V((x <= y) if sg else ULE(x, y), 'bool')
        if op == 'Gt': return V((x > y) if sg else UGT(x, y), 'bool')
        if op == 'Ge': return V((x >= y) if sg else UGE(x, y), 'bool')
        if op == 'Cmp':
            lt = (x < y) if sg else ULT(x, y)
            return Enum(If(lt, BitVecVal(-1, 64), If(x == y, BitVecVal(0, 64), BitVecVal(1, 64))), {}, 'Ordering')
        if op in ('AddWithOverflow', 'SubWithOverflow', 'MulWithOverflow'):
            if op[0] == 'A':
                r = x + y; ov = (Or(And(x < 0, y < 0, r >= 0), And(x >= 0, y >= 0, r < 0)) if sg else ULT(r, x))
            elif op[0] == 'S':
                r = x - y; ov = (Or(And(x < 0, y >= 0, r >= 0), And(x >= 0, y < 0, r < 0)) if sg else ULT(x, y))
            else:
                r = x * y
                ov = Not(BVMulNoOverflow(x, y, False)) if not sg else Or(Not(BVMulNoOverflow(x, y, True)),
                                                                         Not(BVMulNoUnderflow(x, y)))
            return Agg([V(r, ty), V(ov, 'bool')])
        raise Unsupported('binop ' + op)
    def cast(self, v, ty, kind):
        if kind == 'IntToInt':
            if isinstance(v, Enum):    # C-like enum as integer
                w1, _ = bvw(ty); d = v.disc()
                return V(Extract(w1 - 1, 0, d) if w1 < 64 else d, ty)
            if v.ty == 'bool':
                w, _ = bvw(ty); return V(If(v.t, BitVecVal(1, w), BitVecVal(0, w)), ty)
            w0, s0 = bvw(v.ty); w1, _ = bvw(ty)
            if w1 == w0: return V(v.t, ty)
            if w1 < w0: return V(Extract(w1 - 1, 0, v.t), ty)
            return V(SignExt(w1 - w0, v.t) if s0 else ZeroExt(w1 - w0, v.t), ty)
        if kind in ('IntToFloat', 'FloatToInt', 'FloatToFloat'):
            import z3
            FS = {'f64': z3.Float64(), 'f32': z3.Float32()}
            if kind == 'IntToFloat' and ty in FS:
                w0, s0 = bvw(v.ty)
                return V(z3.fpSignedToFP(z3.RNE(), v.t, FS[ty]) if s0 else z3.fpUnsignedToFP(z3.RNE(), v.t, FS[ty]), ty)
            if kind == 'FloatToFloat' and v.ty in FS and ty in FS:
                return V(v.t if v.ty == ty else z3.fpFPToFP(z3.RNE(), v.t, FS[ty]), ty)
            if kind == 'FloatToInt' and v.ty in FS and ty in INT_TYPES:
                w1, s1 = bvw(ty); fs = FS[v.ty]
                if s1: raise Unsupported('float to signed int')
                # Rust `as`: saturating, NaN -> 0
                mx = z3.fpUnsignedToFP(z3.RNE(), BitVecVal((1 << w1) - 1, w1), fs)
                conv = z3.fpToUBV(z3.RTZ(), v.t, BitVecSort(w1))
                return V(If(z3.fpIsNaN(v.t), BitVecVal(0, w1), If(z3.fpLEQ(v.t, z3.FPVal(0.0, fs)), BitVecVal(0, w1),
                            If(z3.fpGEQ(v.t, mx), BitVecVal((1 << w1) - 1, w1), conv))), ty)
        pt = ty.replace('*const ', '').replace('*mut ', '').strip()
        if kind == 'PointerWithExposedProvenance': return Ptr(v.t, pt)
        if kind == 'PointerExposeProvenance':
            if isinstance(v, Ptr): return V(v.addr, ty)
            if isinstance(v, Slice): return V(v.base, ty)
            if isinstance(v, Opaque) and v.tag == 'fnptr': return V(BitVec('fnaddr.' + '.'.join(str(a) for a in v.args), 64), ty)
        if kind.startswith('PointerCoercion'):
            if 'Unsize' in kind and isinstance(v, Ref):
                inner0 = self.get(None, v.frame, v.local, v.proj)
                if isinstance(inner0, Agg) and inner0.kind == 'array' and inner0.f and not isinstance(inner0.f[0], V): return v      # &[T; N] -> &[T] for element types kept as values
            if 'Unsize' in kind and isinstance(v, Ref) and re.search(r'\[\w+\]$', ty.strip()):
                inner = self.get(None, v.frame, v.local, v.proj) if True else None
                if isinstance(inner, Agg) and inner.kind == 'array' and len(inner.f) == 0:
                    self.fresh += 1; p = BitVec(f'emptyarr!{self.fresh}', 64)
                    return Slice(p, BitVecVal(0, 64), 'u8')
            return v
        if kind == 'PtrToPtr':
            if isinstance(v, Ptr): return Ptr(v.addr, pt)
            if isinstance(v, Slice): return Ptr(v.base, pt)
        if kind == 'Transmute':
            if isinstance(v, V) and ty in INT_TYPES and bvw(ty)[0] == v.t.size(): return V(v.t, ty)
            return v
        raise Unsupported(f'cast {v} as {ty} ({kind})')
    def rvalue(self, st, fr, r):
        r = r.strip()
        if r.startswith('no_retag '): r = r[9:]
        if r.startswith(('copy ', 'move ', 'const ')):
            if not r.startswith(('const "', 'const b"')):
                m = re.match(r'(.+) as (.+) \((\w+(?:\(.*\))?)\)$', r)
                if m: return self.cast(self.operand(st, fr, m.group(1)), m.group(2), m.group(3))
            return self.operand(st, fr, r)
        m = re.match(r'([\w:<>{}#@ ]+?) as .*\(PointerCoercion\(ReifyFnPointer', r)
        if m and not r.startswith(('copy ', 'move ')): return Opaque('fnptr', (strip_generics(m.group(1).replace('const ', '')),))      # a function item turned into a function pointer
        if r.startswith('&'):
            body = re.sub(r'^&(raw const |raw mut |mut |fake shallow |fake )?', '', r)
            pl = parse_place(body); f, l, p = self.resolve(st, fr, pl)
            if p and p[-1][0] == 'memderef': return p[-1][1]
            if p and p[-1][0] == 'opq' : return p[-1][1]
            if p and p[-1][0] == 'index' and len(p) >= 2 and p[-2][0] == 'memderef':
                s = p[-2][1]; return Ptr(s.base + p[-1][1] * (bvw(s.ety)[0] // 8), s.ety)
            return Ref(f, l, p)
        m = re.match(r'(\w+)\((.*)\)$', r)
        if m and m.group(1) == 'discriminant':
            v = self.rd(st, fr, parse_place(m.group(2)))
            if isinstance(v, Enum):
                e = (v.ty or '').split('::')[-1].split('<')[0]; vs = self.types.enums.get(e)
                if vs and any(len(x) > 2 and x[2] for x in vs):     # C-like enum with explicit discriminant values
                    vals = [self.types.discr_value(e, i) for i in range(len(vs))]
                    if None in vals: raise Unsupported(f'discriminant values of {e}')
                    d = v.disc(); r = BitVecVal(vals[-1], 64)
                    for i in range(len(vs) - 2, -1, -1): r = If(d == i, BitVecVal(vals[i], 64), r)
                    return V(simplify(r), 'isize')
                return V(v.disc(), 'isize')
            raise Unsupported(f'discriminant of {v}')
        if m and m.group(1) in ('PtrMetadata', 'Len'):
            v = self.operand(st, fr, m.group(2)) if m.group(2).startswith(('copy', 'move')) else self.rd(st, fr, parse_place(m.group(2)))
            v = self.deref(st, v)
            if isinstance(v, Slice): return V(v.len, 'usize')
            if isinstance(v, Agg) and v.kind == 'array': return V(BitVecVal(len(v.f), 64), 'usize')
            if isinstance(v, Str): return V(BitVecVal(len(v.s), 64), 'usize')
            raise Unsupported(f'PtrMetadata of {v}')
        if m and re.fullmatch(r'[A-Z]\w+', m.group(1)) and '::' not in m.group(1) and m.group(1) in (
                'Not', 'Neg', 'Add', 'Sub', 'Mul', 'Div', 'Rem', 'BitAnd', 'BitOr', 'BitXor', 'Shl', 'Shr', 'Eq', 'Ne',
                'Lt', 'Le', 'Gt', 'Ge', 'Cmp', 'AddWithOverflow', 'SubWithOverflow', 'MulWithOverflow', 'AddUnchecked',
                'SubUnchecked', 'MulUnchecked', 'ShlUnchecked', 'ShrUnchecked', 'Offset'):
            args = split_top(m.group(2))
            if m.group(1) in ('Not', 'Neg'):
                a = self.operand(st, fr, args[0])
                if m.group(1) == 'Not': return V(Not(a.t), 'bool') if a.ty == 'bool' else V(~a.t, a.ty)
                return V(-a.t, a.ty)
            a = self.operand(st, fr, args[0]); b = self.operand(st, fr, args[1])
            if m.group(1) == 'Offset': return Ptr(a.addr + b.t * (bvw(a.ty)[0] // 8), a.ty)
            return self.binop(m.group(1), a, b)
        if r.startswith('('):
            k = match_close(r, 0)
            if k == len(r) - 1: return Agg([self.operand(st, fr, x) for x in split_top(r[1:-1])])
        if r.startswith('['):
            inner = r[1:-1]
            parts = split_top(inner, ';')
            if len(parts) == 2:
                e = self.operand(st, fr, parts[0])
                cnt = int(parts[1]) if parts[1].strip().isdigit() else simplify(self.const(parts[1]).t).as_long()
                return Agg([e for _ in range(cnt)], kind='array')
            return Agg([self.operand(st, fr, x) for x in split_top(inner)], kind='array')
        m = re.match(r'\{closure@([^}]*)\}(?: \{(.*)\})?$', r)
        if m:
            fs = [self.operand(st, fr, x.split(': ', 1)[1]) for x in split_top(m.group(2))] if m.group(2) else []
            return Closure(m.group(1), fs)
        m = re.match(r'([\w:<>(), &\[\]\'!;\-+*]+?)::(\w+)\((.*)\)$', r)
        if m and m.group(2)[0].isupper():
            vi = self.types.variant_index(m.group(2), strip_generics(m.group(1)))
            return Enum(vi, {vi: [self.operand(st, fr, x) for x in split_top(m.group(3))]}, strip_generics(m.group(1)).split('::')[-1])
        m = re.match(r'([\w:<>(), &\[\]\'!;\-+*]+?)::(\w+) \{(.*)\}$', r)
        if m and m.group(2)[0].isupper() and strip_generics(m.group(1)).split('::')[-1] in self.types.enums:
            vi = self.types.variant_index(m.group(2), strip_generics(m.group(1)))
            return Enum(vi, {vi: [self.operand(st, fr, x.split(': ', 1)[1]) for x in split_top(m.group(3))]}, strip_generics(m.group(1)).split('::')[-1])
        m = re.match(r'([\w:<>(), &\[\]\'!;\-+*]+?)::(\w+)$', r)
        if m and m.group(2)[0].isupper():
            try:
                vi = self.types.variant_index(m.group(2), strip_generics(m.group(1)))
                return Enum(vi, {vi: []}, strip_generics(m.group(1)).split('::')[-1])
            except Unsupported: return Opaque('unit:' + r)
        m = re.match(r'([\w:<>\', ]+?) \{(.*)\}$', r)
        if m:
            body = m.group(2).strip()
            fl = [self.operand(st, fr, x.split(': ', 1)[1]) for x in split_top(body)] if body else []
            return Agg(fl, strip_generics(m.group(1)).split('::')[-1], 'struct')
        m = re.match(r'([\w:<>\', ]+?)\((.*)\)$', r)     # tuple struct
        if m and m.group(1).split('::')[-1][0].isupper():
            return Agg([self.operand(st, fr, x) for x in split_top(m.group(2))], strip_generics(m.group(1)).split('::')[-1], 'struct')
        raise Unsupported('rvalue ' + r)
    # ---- function lookup
    def lookup(self, callee):
        name = strip_generics(callee)
        if name in self.funcs: return self.funcs[name]
        m = re.match(r'<\{closure@([^}]*)\} as Fn(?:Mut|Once)?<.*>>::call(?:_mut|_once)?$', callee)
        if m:
            for n, f in self.funcs.items():
                if f.params and m.group(1) in f.params[0][1] and '{closure#' in n: return f
            return None
        parts = name.split('::')
        if len(parts) >= 2 and parts[-2][:1].isupper() and not name.startswith('<'):
            tn = parts[-2].split('<')[0]; cands0 = self.mir.by_last.get(parts[-1], [])
            c2 = [c for c in cands0 if '<impl' in c and self.funcs[c].params and re.search(r'\b' + re.escape(tn) + r'\b', self.funcs[c].params[0][1])]
            if len(c2) == 1: return self.funcs[c2[0]]
            c3 = [c for c in cands0 if '<impl' in c and re.search(r'\b' + re.escape(tn) + r'\b', self.funcs[c].ret)]
            if not c2 and len(c3) == 1: return self.funcs[c3[0]]
        # crate-path prefix variants: `verifier::check` printed as `check`, `ebpf::get_insn` as `get_insn` ...
        for k in range(1, len(parts)):
            cand = '::'.join(parts[k:])
            if cand in self.funcs and not cand.startswith('<'): return self.funcs[cand]
        last = parts[-1]; cands = self.mir.by_last.get(last, [])
        tyname = parts[-2] if len(parts) >= 2 else None
        if tyname and not name.startswith('<'):
            tn = tyname.split('<')[0]
            c2 = [c for c in cands if self.funcs[c].params and re.search(r'\b' + re.escape(tn) + r'\b', self.funcs[c].params[0][1])]
            if not c2:
                c2 = [c for c in cands if re.search(r'\b' + re.escape(tn) + r'\b', self.funcs[c].ret) and '<impl' in c]
            if len(c2) == 1: return self.funcs[c2[0]]
        m = re.match(r'<([\w:]+)(?:<.*>)? as ([\w:]+)(?:<.*>)?>::(\w+)$', name)
        if m:   # trait method on a crate type:  <Type as Trait>::method
            tn = m.group(1).split('::')[-1]
            c2 = [c for c in cands if self.funcs[c].params and re.search(r'\b' + re.escape(tn) + r'\b', self.funcs[c].params[0][1]) and '<impl' in c]
            if len(c2) == 1: return self.funcs[c2[0]]
        return None
    # ---- exploration
    def run(self, st):
        work = [st]
        while work:
            st = work.pop()
            try:
                while True:
                    nxt = self.step(st)
                    if nxt is None: break
                    if isinstance(nxt, list): work.extend(nxt); break
            except Unsupported as e:
                fr = st.frames[-1] if st.frames else None
                raise Unsupported(f'{e}  [in {fr.func.name if fr else "?"} {fr.bb if fr else ""}]')
    def explore(self, st, cuts=()):
        """run st to completion; a top-frame (depth 1) arrival at a cut block ends the path as kind 'cut' on its
        second visit to that block (the first visit is the start when we begin at the head)."""
        saved = (self.results, self.cuts); self.results = []; self.cuts = set(cuts)
        try: self.run(st)
        finally: res = self.results; self.results, self.cuts = saved
        return res
    def step(self, st):
        fr = st.frames[-1]; blk = fr.func.blocks[fr.bb]
        if self.cuts and (fr.func.name, fr.bb) in self.cuts and fr.tag == 'top':
            k = (fr.func.name, fr.bb); st.visits[k] = st.visits.get(k, 0) + 1
            if st.visits[k] >= 2: self.finish(st, 'cut', fr.bb); return None
        self.used_funcs.add(fr.func.name); self._cur_fn = fr.func.name
        for s in blk.stmts:
            if s.startswith(('Deinit(', 'SetDiscriminant', 'StorageLive', 'Assume(', 'assume(')):
                m = re.match(r'discriminant\((.+)\) = (\d+);$', s)
                continue
            m = re.match(r'discriminant\((.+)\) = (\d+);$', s)
            if m:
                pl = parse_place(m.group(1)); v = self.rd(st, fr, pl)
                self.wr(st, fr, pl, Enum(int(m.group(2)), v.payload if isinstance(v, Enum) else {int(m.group(2)): []}, getattr(v, 'ty', '')))
                continue
            lhs, rhs = s.rstrip(';').split(' = ', 1)
            self.wr(st, fr, parse_place(lhs), self.rvalue(st, fr, rhs))
        t = blk.term
        if t.startswith('goto ->'): fr.bb = t[8:].rstrip(';'); return True
        if t.startswith(('falseEdge', 'falseUnwind')):
            fr.bb = re.search(r'bb\d+', t).group(0); return True
        if t == 'return;':
            rv = fr.locals.get('_0', Agg([], '()')); st.frames.pop()
            if not st.frames or fr.tag == 'top':
                st.aux['final_locals'] = fr.locals; self.finish(st, 'return', rv); return None
            if fr.tag == 'sub': self.finish(st, 'subreturn', rv); return None
            caller = st.frames[-1]
            if fr.ret_place is not None: self.wr(st, caller, fr.ret_place, rv)
            caller.bb = fr.ret_bb; return True
        if t == 'unreachable;': self.finish(st, 'ub-unreachable', (fr.func.name, fr.bb)); return None
        if t.startswith('drop('):
            m = re.search(r'return: (bb\d+)', t); fr.bb = m.group(1); return True
        if t.startswith('switchInt('):
            k = match_close(t, 9); op = t[10:k]; v = self.operand(st, fr, op)
            m = re.search(r'-> \[(.*)\];', t[k:]); outs = []
            if isinstance(v, Enum): tv = v.disc()
            else:
                tv = v.t
                if v.ty == 'bool': tv = If(v.t, BitVecVal(1, 8), BitVecVal(0, 8))
            tv = simplify(tv); conds = []
            tgts = split_top(m.group(1))
            if is_bv_value(tv):      # concrete: no solver
                val = tv.as_long(); tgt = None
                for x in tgts:
                    a, b = x.split(': ')
                    if a == 'otherwise': tgt = tgt or b
                    elif int(a) % (1 << tv.size()) == val: tgt = b; break
                fr.bb = tgt; return True
            for tgt in tgts:
                a, b = tgt.split(': ')
                if a == 'otherwise':
                    c = And(*[tv != x for x in conds]) if conds else BoolVal(True); outs.append((c, b))
                else:
                    val = BitVecVal(int(a), tv.size()); conds.append(val); outs.append((tv == val, b))
            feas = [(c, b) for c, b in outs if self.feasible(st, c)]
            if not feas: return None
            if len(feas) == 1: st.pc.append(simplify(feas[0][0])); fr.bb = feas[0][1]; return True
            res = []
            for c, b in feas[1:]:
                s2 = st.fork(); s2.pc.append(simplify(c)); s2.frames[-1].bb = b; res.append(s2)
            st.pc.append(simplify(feas[0][0])); fr.bb = feas[0][1]; res.append(st)
            return res
        if t.startswith('assert('):
            k = match_close(t, 6); inner = split_top(t[7:k]); cs = inner[0]; neg = cs.startswith('!')
            c = self.operand(st, fr, cs.lstrip('!')).t
            if neg: c = Not(c)
            m = re.search(r'success: (bb\d+)', t); msg = inner[1]
            is_ovf = 'which would overflow' in msg or 'attempt to negate' in msg or 'attempt to shift' in msg
            if is_ovf and not self.overflow_panics:
                fr.bb = m.group(1); return True
            if not self.panic_if(st, fr, Not(c), msg.strip('"')): return None
            fr.bb = m.group(1); return True
        # call
        m = re.match(r'(.+?) = (.+)$', t)
        if not m: raise Unsupported('terminator ' + t)
        lhs = m.group(1); rest = m.group(2)
        am = re.search(r' -> (\[return: (bb\d+).*\]|(bb\d+)|unwind [\w() ]+);$', rest)
        call = rest[:am.start()]; ret_bb = am.group(2) or am.group(3)
        k = call.rindex(')'); depth = 0; j = k
        while True:
            ch = call[j]
            if ch == ')': depth += 1
            elif ch == '(':
                depth -= 1
                if depth == 0: break
            j -= 1
        callee = call[:j]; argstr = call[j + 1:k]
        base = strip_generics(callee)
        if base in PANIC_FNS or base.endswith(('::panic_fmt', '::unwrap_failed', '::expect_failed')):
            a = None
            try: a = self.operand(st, fr, split_top(argstr)[0])
            except Unsupported: pass
            msg = 'explicit panic'
            if isinstance(a, Str): msg = a.s
            elif isinstance(a, Opaque) and a.tag == 'fmtargs' and a.args and isinstance(a.args[0], Str): msg = a.args[0].s
            self.finish(st, 'panic', (msg, fr.func.name, fr.bb)); return None
        args = [self.operand(st, fr, a) for a in split_top(argstr)]
        return self.call(st, fr, parse_place(lhs), callee, args, ret_bb)
    def ret(self, st, fr, lhs, val, ret_bb):
        if ret_bb is None: self.finish(st, 'diverge', (fr.func.name, fr.bb)); return None
        self.wr(st, fr, lhs, val); fr.bb = ret_bb; return True
    def call(self, st, fr, lhs, callee, args, ret_bb):
        base = strip_generics(callee)
        R = lambda v: self.ret(st, fr, lhs, v, ret_bb)
        for pat, h in self.stubs:
            if pat.search(base):
                r = h(self, st, fr, callee, args, R)
                if r is not NotImplemented: return r
        r = intrinsic(self, st, fr, callee, base, args, R)
        if r is not NotImplemented: return r
        # a no_std build prints library paths as core:: / alloc:: where the default build prints std:: (same items, re-exported): retry under the std spelling
        callee2 = re.sub(r'\b(core|alloc)::', 'std::', callee)
        if callee2 != callee:
            base2 = strip_generics(callee2)
            for pat, h in self.stubs:
                if pat.search(base2):
                    r = h(self, st, fr, callee2, args, R)
                    if r is not NotImplemented: return r
            r = intrinsic(self, st, fr, callee2, base2, args, R)
            if r is not NotImplemented: return r
        # indirect call through a closure value / fn item
        if re.fullmatch(r'(copy|move) _\d+', callee.strip()):
            f = self.deref(st, self.operand(st, fr, callee.strip()))
            if isinstance(f, Opaque) and f.tag == 'fnitem':
                return self.call(st, fr, lhs, f.args[0], args, ret_bb)
            h = self.ctx.get('indirect_call')
            if h is not None:
                r = h(self, st, fr, f, args, R)
                if r is not NotImplemented: return r
            raise Unsupported(f'indirect call through {f}')
        f = self.lookup(callee)
        if f is None: raise Unsupported('callee ' + callee)
        return self.invoke(st, fr, lhs, f, args, ret_bb)
    def bind_args(self, f, nf, args):
        if len(f.params) == len(args):
            for (p, _), a in zip(f.params, args): nf.locals[p] = a
        elif len(args) == 2 and isinstance(args[1], Agg) and len(f.params) == 1 + len(args[1].f):   # closure call
            nf.locals[f.params[0][0]] = args[0]
            for (p, _), a in zip(f.params[1:], args[1].f): nf.locals[p] = a
        else: raise Unsupported(f'arity {f.name}: {len(f.params)} vs {len(args)}')
    def invoke(self, st, fr, lhs, f, args, ret_bb):
        if f.name.split('::')[-1] in self.summarize and ret_bb is not None:
            r = self.invoke_summarized(st, fr, lhs, f, args, ret_bb)
            if r is not NotImplemented: return r
        nf = Frame(f, lhs if ret_bb else None, ret_bb)
        self.bind_args(f, nf, args)
        st.frames.append(nf); return True
    def call_pure(self, st, f, args):
        """run callee f on a fork of st over all its paths; returns (rets, others, n0) where rets are the returning
        paths. Caller decides how to merge."""
        sub = st.fork(); nf = Frame(f, None, None); nf.tag = 'sub'
        mp = {id(a): b for a, b in zip(st.frames, sub.frames)}
        def fix(v):
            if isinstance(v, Ref): return Ref(mp.get(id(v.frame), v.frame), v.local, v.proj)
            if isinstance(v, Agg): return Agg([fix(x) for x in v.f], v.ty, v.kind)
            if isinstance(v, Closure): return Closure(v.cid, [fix(x) for x in v.f])
            if isinstance(v, Enum): return Enum(v.d, {k: [fix(x) for x in p] for k, p in v.payload.items()}, v.ty)
            return v
        self.bind_args(f, nf, [fix(a) for a in args])
        sub.frames.append(nf)
        saved = (self.results, self.cuts); self.results = []; self.cuts = set()
        try: self.run(sub)
        finally: res = self.results; self.results, self.cuts = saved
        rets = [p for p in res if p.kind == 'subreturn']; others = [p for p in res if p.kind != 'subreturn']
        return rets, others
    def _key(self, st, v):
        if isinstance(v, V): return ('V', v.t.get_id(), v.ty)
        if isinstance(v, Slice): return ('S', v.base.get_id(), v.len.get_id(), v.ety)
        if isinstance(v, Ptr): return ('P', v.addr.get_id(), v.ty)
        if isinstance(v, Str): return ('T', v.s)
        if isinstance(v, Opaque): return ('O', v.tag, tuple(self._key(st, a) if not isinstance(a, (str, int)) else a for a in v.args))
        if isinstance(v, Ref): return ('R', self._key(st, self.get(st, v.frame, v.local, v.proj)))
        if isinstance(v, (Agg, Closure)): return ('A', tuple(self._key(st, x) for x in v.f))
        if isinstance(v, Enum): return ('E', v.d if isinstance(v.d, int) else v.d.get_id(), tuple((k, tuple(self._key(st, x) for x in p)) for k, p in sorted(v.payload.items())))
        if v is None: return None
        raise Unsupported('key')
    def merged_pure(self, st, f, args):
        """value of a side-effect-free callee as one ite-shaped term; NotImplemented when it is not pure here.
        The callee is explored once under the base assumptions only (so the summary is valid on every path) and
        memoised on its argument terms; its panic/diverging paths are re-checked for feasibility on each use."""
        try: key = (f.name, st.mem.get_id() if st.mem is not None else None, tuple(self._key(st, a) for a in args))
        except Unsupported: key = None
        ent = self.memo.get(key) if key is not None else None
        if ent is None:
            base = st.fork(); base.pc = st.pc[:self.base_n]
            n0 = len(base.pc); l0 = len(base.log); e0 = len(base.events)
            rets, others = self.call_pure(base, f, args)
            for p in rets:
                if p.st.mem is not base.mem and not (p.st.mem is not None and base.mem is not None and p.st.mem.eq(base.mem)):
                    return NotImplemented
                if len(p.st.events) != e0: return NotImplemented
            logs = [p.st.log[l0:] for p in rets]
            if any(len(l) != len(logs[0]) or any(not (a[0] == b[0] and a[1].eq(b[1]) and a[2] == b[2]) for a, b in zip(l, logs[0])) for l in logs[1:]):
                return NotImplemented
            conds = [And(*p.st.pc[n0:]) if len(p.st.pc) > n0 else BoolVal(True) for p in rets]
            val = None
            if rets:
                val = rets[-1].payload
                for c, p in zip(reversed(conds[:-1]), reversed(rets[:-1])): val = ite_val(c, p.payload, val)
            oth = [(p.kind, p.payload, p.st.pc[n0:]) for p in others]
            ent = (val, simplify(Or(*conds)) if rets else BoolVal(False), logs[0] if rets else [], oth)
            if key is not None: self.memo[key] = ent
        val, okc, log, oth = ent
        for kind, payload, delta in oth:
            c = And(*delta) if delta else BoolVal(True)
            if self.feasible(st, c):
                s2 = st.fork(); s2.pc.append(simplify(c)); self.finish(s2, kind, payload)
        if val is None: return None
        if oth:
            if not self.feasible(st, okc): return None
            st.pc.append(okc)
        st.log.extend(log)
        return val
    def invoke_summarized(self, st, fr, lhs, f, args, ret_bb):
        val = self.merged_pure(st, f, args)
        if val is NotImplemented: return NotImplemented
        if val is None: return None
        return self.ret(st, fr, lhs, val, ret_bb)


def _unescape(s):
    out = []; i = 0
    while i < len(s):
        c = s[i]
        if c == '\\':
            n = s[i + 1]
            if n == 'x': out.append(chr(int(s[i + 2:i + 4], 16))); i += 4; continue
            if n == 'u':
                j = s.index('}', i); out.append(chr(int(s[i + 3:j], 16))); i = j + 1; continue
            out.append({'n': '\n', 't': '\t', 'r': '\r', '0': '\0', '\\': '\\', '"': '"', "'": "'"}.get(n, n)); i += 2; continue
        out.append(c); i += 1
    return ''.join(out)


# ------------------------------------------------------------------------------------------ intrinsics (std/core)
def intrinsic(eng, st, fr, callee, base, args, R):
    deref = lambda v: eng.deref(st, v)
    m = re.match(r'<(\w+) as (?:std::cmp::|core::cmp::)?Ord>::(min|max)$', base)
    if m and m.group(1) in INT_TYPES and len(args) == 2 and isinstance(args[0], V) and isinstance(args[1], V):
        ty, fn = m.group(1), m.group(2); w, sg = bvw(ty); a, b = args[0].t, args[1].t; lt = (a < b) if sg else ULT(a, b)
        return R(V(If(lt, a, b) if fn == 'min' else If(lt, b, a), ty))
    m = re.match(r'core::num::<impl (\w+)>::(\w+)$', base)
    if m:
        ty, fn = m.group(1), m.group(2); w, sg = bvw(ty); a = args[0]
        if fn == 'wrapping_add': return R(V(a.t + args[1].t, ty))
        if fn == 'wrapping_sub': return R(V(a.t - args[1].t, ty))
        if fn == 'wrapping_mul': return R(V(a.t * args[1].t, ty))
        if fn == 'wrapping_neg': return R(V(-a.t, ty))
        if fn in ('wrapping_shl', 'wrapping_shr'):
            sh = args[1].t
            sh = Extract(w - 1, 0, sh) if sh.size() > w else (ZeroExt(w - sh.size(), sh) if sh.size() < w else sh)
            sh = sh & (w - 1)
            if fn == 'wrapping_shl': return R(V(a.t << sh, ty))
            return R(V((a.t >> sh) if sg else LShR(a.t, sh), ty))
        if fn in ('to_le', 'from_le'): return R(a)
        if fn in ('to_be', 'swap_bytes', 'from_be'):
            n = w // 8; return R(V(Concat(*[Extract(8 * i + 7, 8 * i, a.t) for i in range(n)]) if n > 1 else a.t, ty))
        if fn in ('checked_add', 'checked_sub', 'checked_mul'):
            r = eng.binop({'checked_add': 'AddWithOverflow', 'checked_sub': 'SubWithOverflow', 'checked_mul': 'MulWithOverflow'}[fn], a, args[1])
            return R(Enum(If(r.f[1].t, BitVecVal(0, 64), BitVecVal(1, 64)), {0: [], 1: [r.f[0]]}, 'Option'))
        if fn == 'overflowing_add' or fn == 'overflowing_sub' or fn == 'overflowing_mul':
            return R(eng.binop({'a': 'AddWithOverflow', 's': 'SubWithOverflow', 'm': 'MulWithOverflow'}[fn[12]], a, args[1]))
        if fn in ('checked_div', 'checked_rem', 'checked_div_euclid', 'checked_rem_euclid') and not sg:
            b = args[1].t; r = UDiv(a.t, b) if 'div' in fn else URem(a.t, b)
            return R(Enum(If(b == 0, BitVecVal(0, 64), BitVecVal(1, 64)), {0: [], 1: [V(r, ty)]}, 'Option'))
        if fn in ('wrapping_div', 'wrapping_rem') and not sg:
            b = args[1].t
            if not eng.panic_if(st, fr, b == 0, 'attempt to divide by zero' if fn == 'wrapping_div' else 'attempt to calculate the remainder with a divisor of zero'): return None
            return R(V(UDiv(a.t, b) if fn == 'wrapping_div' else URem(a.t, b), ty))
        if fn in ('saturating_add', 'saturating_sub') and not sg:
            b = args[1].t
            if fn == 'saturating_add': return R(V(If(ULT(a.t + b, a.t), BitVecVal((1 << w) - 1, w), a.t + b), ty))
            return R(V(If(ULT(a.t, b), BitVecVal(0, w), a.t - b), ty))
        if fn in ('rotate_left', 'rotate_right'):
            sh = args[1].t; sh = Extract(w - 1, 0, sh) if sh.size() > w else (ZeroExt(w - sh.size(), sh) if sh.size() < w else sh)
            return R(V(z3.RotateLeft(a.t, sh) if fn == 'rotate_left' else z3.RotateRight(a.t, sh), ty))
        if fn in ('min', 'max'):
            b = args[1].t; lt = (a.t < b) if sg else ULT(a.t, b)
            return R(V(If(lt, a.t, b) if fn == 'min' else If(lt, b, a.t), ty))
        if fn == 'unsigned_abs' and sg: return R(V(If(a.t < 0, -a.t, a.t), 'u' + ty[1:]))
        if fn == 'is_multiple_of': return R(V(If(args[1].t == 0, a.t == 0, URem(a.t, args[1].t) == 0), 'bool'))
        if fn == 'abs_diff':
            x, y = a.t, args[1].t; lt = (x < y) if sg else ULT(x, y)
            return R(V(If(lt, y - x, x - y), ty if not sg else 'u' + ty[1:]))
        if fn == 'from_str_radix' or fn == 'pow' or fn == 'leading_zeros': return NotImplemented
        if fn == 'to_le_bytes':
            n = w // 8; return R(Agg([V(Extract(8 * i + 7, 8 * i, a.t), 'u8') for i in range(n)], kind='array'))
        if fn == 'unsigned_abs': return R(V(If(a.t < 0, -a.t, a.t), 'u' + ty[1:]))
        if fn == 'min': return R(V(If((a.t < args[1].t) if sg else ULT(a.t, args[1].t), a.t, args[1].t), ty))
        if fn == 'max': return R(V(If((a.t > args[1].t) if sg else UGT(a.t, args[1].t), a.t, args[1].t), ty))
    if base.startswith('Option::') and base.endswith(('::as_ref', '::as_mut', '::as_deref', '::as_deref_mut', '::take')) :
        o = deref(args[0])
        if base.endswith('::take') and isinstance(args[0], Ref):
            eng.put(st, args[0].frame, args[0].local, args[0].proj, Enum(0, {0: [], 1: o.payload.get(1, [])}, 'Option'))
        return R(o)
    if base in ('null_mut', 'null', 'std::ptr::null_mut', 'std::ptr::null', 'core::ptr::null_mut', 'core::ptr::null'):
        return R(Ptr(BitVecVal(0, 64), 'u8'))
    if base in ('std::vec::Vec::new', 'alloc::vec::Vec::new'):
        eng.fresh += 1
        p = BitVec(f'emptyvec!{eng.fresh}', 64); st.pc.append(p != 0)
        return R(Slice(p, BitVecVal(0, 64), 'u8'))
    if base in ('std::f64::<impl f64>::sqrt', 'core::f64::<impl f64>::sqrt', 'std::f32::<impl f32>::sqrt', 'core::f32::<impl f32>::sqrt'):
        import z3
        return R(V(z3.fpSqrt(z3.RNE(), args[0].t), args[0].ty))
    if re.match(r'core::slice::<impl \[\w+\]>::(as_ptr|as_mut_ptr)$', base) or base in ('std::vec::Vec::as_ptr', 'std::vec::Vec::as_mut_ptr', 'alloc::vec::Vec::as_ptr', 'alloc::vec::Vec::as_mut_ptr'):
        s = deref(args[0]); return R(Ptr(s.base, s.ety))
    if re.match(r'core::slice::<impl \[\w+\]>::is_empty$', base) or base in ('std::vec::Vec::is_empty', 'alloc::vec::Vec::is_empty'):
        s = deref(args[0])
        if isinstance(s, Slice): return R(V(s.len == 0, 'bool'))
    if re.match(r'core::slice::<impl \[\w+\]>::len$', base) or base in ('std::vec::Vec::len', 'alloc::vec::Vec::len'):
        s = deref(args[0])
        if isinstance(s, Slice): return R(V(s.len, 'usize'))
        if isinstance(s, Agg): return R(V(BitVecVal(len(s.f), 64), 'usize'))
    if base.endswith('as Deref>::deref') or base.endswith('as DerefMut>::deref_mut') or re.search(r'as AsRef<[^>]*>>::as_ref$', base) or base.endswith('::as_slice') or base.endswith('::as_mut_slice'):
        v = deref(args[0])
        if isinstance(v, (Slice, Str, Opaque)): return R(v)
    m = re.match(r'std::ptr::(?:const|mut)_ptr::<impl \*(?:const|mut) (\w+)>::(\w+)$', base)
    if m:
        ty, fn = m.group(1), m.group(2); p = args[0]
        if fn in ('wrapping_offset', 'add', 'offset', 'wrapping_add'):
            if ty == 'T': ty = p.ty
            return R(Ptr(p.addr + args[1].t * (bvw(ty)[0] // 8), ty))
        if fn in ('read_unaligned', 'read'): return R(eng.load(st, p.addr, p.ty if ty == 'T' else ty, 'read'))
        if fn in ('write_unaligned', 'write'):
            eng.store(st, p.addr, V(args[1].t, p.ty if ty == 'T' else ty), 'write'); return R(Agg([], '()'))
        if fn == 'is_null': return R(V(p.addr == 0, 'bool'))
        if fn == 'cast': return R(Ptr(p.addr, p.ty))
    m = re.match(r'<(?:byteorder::)?LittleEndian as (?:byteorder::)?ByteOrder>::read_(\w+)$', base)
    if m:
        s = deref(args[0]); ty = m.group(1); need = bvw(ty)[0] // 8
        if not eng.panic_if(st, fr, ULT(s.len, need), 'byteorder: slice shorter than value'): return None
        return R(eng.load(st, s.base, ty, 'sliceread'))
    m = re.match(r'<(?:byteorder::)?LittleEndian as (?:byteorder::)?ByteOrder>::write_(\w+)$', base)
    if m:
        s = deref(args[0]); ty = m.group(1); need = bvw(ty)[0] // 8
        if not eng.panic_if(st, fr, ULT(s.len, need), 'byteorder: slice shorter than value'): return None
        eng.store(st, s.base, V(args[1].t, ty), 'slicewrite'); return R(Agg([], '()'))
    m = re.match(r'<(?:\[(\w+)\]|std::vec::Vec<(\w+)>|alloc::vec::Vec<(\w+)>) as Index(?:Mut)?<std::ops::Range(From|To|Inclusive|)<usize>>>::index(?:_mut)?$', base)
    if m:
        ety_ = m.group(1) or m.group(2) or m.group(3); kind_ = m.group(4)
        s = deref(args[0]); esz = bvw(ety_)[0] // 8; kind = kind_; rng = args[1]
        if isinstance(s, Slice):
            if kind == 'From':
                start = rng.f[0].t
                if not eng.panic_if(st, fr, UGT(start, s.len), 'slice start index out of range'): return None
                return R(Slice(s.base + start * esz, s.len - start, s.ety))
            if kind == 'To':
                end = rng.f[0].t
                if not eng.panic_if(st, fr, UGT(end, s.len), 'slice end index out of range'): return None
                return R(Slice(s.base, end, s.ety))
            if kind == '':
                start, end = rng.f[0].t, rng.f[1].t
                if not eng.panic_if(st, fr, Or(UGT(start, end), UGT(end, s.len)), 'slice index out of range'): return None
                return R(Slice(s.base + start * esz, end - start, s.ety))
    m = re.match(r'<(?:std::vec::Vec<(\w+)>|alloc::vec::Vec<(\w+)>|\[(\w+)\]) as Index(?:Mut)?<usize>>::index(?:_mut)?$', base)
    if m:
        ety_ = m.group(1) or m.group(2) or m.group(3); s = deref(args[0])
        if isinstance(s, Slice) and ety_ in INT_TYPES:
            esz = bvw(ety_)[0] // 8
            if not eng.panic_if(st, fr, UGE(args[1].t, s.len), 'index out of bounds'): return None
            return R(Ptr(s.base + args[1].t * esz, ety_))
    if re.match(r'core::slice::<impl \[.*\]>::iter$', base):
        v = deref(args[0])
        if isinstance(v, Agg): return R(Opaque('sliceiter', (v,)))
    m = re.match(r'<std::slice::Iter<.*> as Iterator>::(any|all)$', base)
    if m:
        it = deref(args[0]); clo = deref(args[1]) if isinstance(args[1], Ref) else args[1]
        if isinstance(it, Opaque) and it.tag == 'sliceiter' and isinstance(clo, Closure):
            f = eng.lookup('<{closure@%s} as FnMut<x>>::call_mut' % clo.cid)
            if f is None: raise Unsupported(f'{m.group(1)}(): closure body not found')
            res = BoolVal(m.group(1) == 'all')
            for i, e in enumerate(it.args[0].f):
                fr.locals['__iclo'] = clo; fr.locals[f'__ielem{i}'] = e
                val = eng.merged_pure(st, f, [Ref(fr, '__iclo', []), Ref(fr, f'__ielem{i}', [])])
                if val is NotImplemented or val is None: raise Unsupported(f'{m.group(1)}(): closure not pure')
                res = Or(res, val.t) if m.group(1) == 'any' else And(res, val.t)
            return R(V(simplify(res), 'bool'))
    # ---- String building: a String is Opaque('string', ..) (one format!/to_string) or Opaque('strcat', parts) after in-place appends
    if base in ('std::string::String::push_str', 'alloc::string::String::push_str', '<std::string::String as AddAssign<&str>>::add_assign', 'std::string::String::push', 'alloc::string::String::push'):
        r_ = args[0]
        if isinstance(r_, Ref):
            cur = eng.get(st, r_.frame, r_.local, r_.proj); piece = deref(args[1]) if isinstance(args[1], Ref) else args[1]
            if base.endswith('::push'): piece = Opaque('char', (piece,))
            parts = (cur.args if isinstance(cur, Opaque) and cur.tag == 'strcat' else (cur,)) + (piece,)
            eng.put(st, r_.frame, r_.local, r_.proj, Opaque('strcat', parts)); return R(Agg([], '()'))
    if base in ('std::string::String::new', 'alloc::string::String::new'): return R(Str(''))
    if base in ('<std::string::String as Add<&str>>::add',):
        cur = args[0]; piece = deref(args[1]) if isinstance(args[1], Ref) else args[1]
        return R(Opaque('strcat', (cur.args if isinstance(cur, Opaque) and cur.tag == 'strcat' else (cur,)) + (piece,)))
    if base in ('std::string::String::as_str', 'alloc::string::String::as_str', '<std::string::String as Deref>::deref', '<std::string::String as std::ops::Deref>::deref', '<std::string::String as AsRef<str>>::as_ref', '<std::string::String as Borrow<str>>::borrow'):
        return R(deref(args[0]))
    if base.endswith('as std::ops::Try>::branch'):
        r = args[0]
        if r.ty == 'Option' or (set(r.payload) <= {0, 1} and 'Option' in callee.split(' as ')[0]):
            # Option: None -> Break(None) ; Some(v) -> Continue(v)
            d = r.disc()
            return R(Enum(If(d == 1, BitVecVal(0, 64), BitVecVal(1, 64)), {0: r.payload.get(1, []), 1: [Enum(0, {0: []}, 'Option')]}, 'ControlFlow'))
        pl = {0: r.payload.get(0, []), 1: [Enum(1, {1: r.payload.get(1, [Opaque('err')])}, 'Result')]}
        return R(Enum(r.d, pl, 'ControlFlow'))
    if 'as FromResidual<' in base and base.endswith('::from_residual'):
        r = args[0]
        if 'Option' in callee.split(' as ')[0]: return R(Enum(0, {0: []}, 'Option'))
        return R(Enum(1, {1: r.payload.get(1, [Opaque('err')])}, 'Result'))
    if (base.startswith('Option::') or base.startswith('Result::')) and base.endswith(('::unwrap', '::expect')):
        o = args[0]; d = o.disc(); isopt = base.startswith('Option::')
        good = 1 if isopt else 0
        if not eng.panic_if(st, fr, d != good, f'{base} on {"None" if isopt else "Err"}'): return None
        return R(o.payload[good][0] if o.payload.get(good) else Agg([], '()'))
    if base.startswith('Option::') and base.endswith('::unwrap_or'):
        o = args[0]; d = o.disc()
        some = o.payload.get(1, [None])[0]
        return R(ite_val(d == 1, some, args[1]) if some is not None else args[1])
    if base.startswith('Option::') and base.endswith(('::is_some', '::is_none')):
        o = deref(args[0]); return R(V(o.disc() == (1 if base.endswith('is_some') else 0), 'bool'))
    if base.startswith('Result::') and base.endswith(('::is_ok', '::is_err')):
        o = deref(args[0]); return R(V(o.disc() == (0 if base.endswith('is_ok') else 1), 'bool'))
    if base.startswith(('std::io::Error::other', 'std::io::Error::new', 'no_std_error::Error::other', 'no_std_error::Error::new', 'Error::other', 'Error::new')) or re.search(r'(^|::)Error::(other|new)$', base):
        return R(Opaque('error', tuple(a for a in args if isinstance(a, (Str, Opaque)))))
    if base in ('std::fmt::format', 'alloc::fmt::format', 'must_use', 'std::hint::must_use', 'core::hint::must_use'):
        return R(args[0] if base.endswith('must_use') else Opaque('string', tuple(args)))
    if base.endswith('as std::string::ToString>::to_string') or base.endswith('as ToString>::to_string') or base.endswith('as ToOwned>::to_owned') or base.endswith('as From<&str>>::from'):
        return R(Opaque('string', tuple(args)))
    if base.startswith('core::fmt::rt::Argument'): return R(Opaque('fmtarg', (base.split('::')[-1], deref(args[0]))))
    if base.startswith('Arguments::') or base.startswith('std::fmt::Arguments::') or base.startswith('core::fmt::Arguments'):
        # keep the template and the (already dereferenced) argument list: [(formatting trait, value), ...]
        tpl = args[0] if args and isinstance(args[0], Str) else None
        lst = None
        if len(args) > 1:
            arr = deref(args[1])
            if isinstance(arr, Agg): lst = tuple((a.args[0], a.args[1]) if isinstance(a, Opaque) and a.tag == 'fmtarg' else ('?', a) for a in arr.f)
        return R(Opaque('fmtargs', (tpl, lst)))
    if (base.startswith('Result::') and base.endswith(('::map', '::map_err'))) or (base.startswith('Option::') and base.endswith('::map')):
        o = args[0]; clo = args[1]
        cid = None
        if isinstance(clo, Opaque) and clo.tag == 'fnitem': cid = re.search(r'closure@([^}]*)', clo.args[0])
        if isinstance(clo, Closure): cid = re.search(r'(.*)', clo.cid)
        if cid is None: raise Unsupported(f'{base}: closure {clo}')
        f = eng.lookup('<{closure@%s} as FnOnce<x>>::call_once' % cid.group(1))
        if f is None: raise Unsupported(f'{base}: closure body not found')
        which = 1 if (base.endswith('map_err')) else (1 if base.startswith('Option::') else 0)
        pl = dict(o.payload)
        if pl.get(which):
            fr.locals['__mapclo'] = clo if isinstance(clo, Closure) else Closure(cid.group(1), [])
            val = eng.merged_pure(st, f, [fr.locals['__mapclo'], pl[which][0]])
            if val is NotImplemented or val is None: raise Unsupported(f'{base}: closure not pure')
            pl[which] = [val]
        return R(Enum(o.d, pl, o.ty))
    if base in ('std::mem::align_of', 'std::mem::size_of', 'core::mem::align_of', 'core::mem::size_of'):
        ty = re.search(r'::<(.+)>$', callee).group(1)
        if ty in INT_TYPES: return R(V(BitVecVal(bvw(ty)[0] // 8, 64), 'usize'))
    if base in ('Atomic::fetch_add', 'AtomicU32::fetch_add', 'AtomicU64::fetch_add', 'std::sync::atomic::Atomic::fetch_add', 'core::sync::atomic::Atomic::fetch_add'):
        gm = re.search(r'::<(\w+)>', callee)
        ty = gm.group(1) if gm else ('u32' if 'U32' in base else 'u64'); a = deref(args[0]) if isinstance(args[0], Ref) else args[0]
        if not isinstance(a, Ptr): raise Unsupported(f'fetch_add on {a}')
        old = eng.load(st, a.addr, ty, 'atomic-read'); eng.store(st, a.addr, V(old.t + args[1].t, ty), 'atomic-write')
        st.events.append(('atomic_rmw', a.addr, ty, args[1].t)); return R(old)
    if base in ('std::ops::Range::contains', 'core::ops::Range::contains', 'std::ops::Range::<Idx>::contains'):
        r = deref(args[0]); x = deref(args[1])
        sg = bvw(x.ty)[1]
        return R(V(And((r.f[0].t <= x.t) if sg else ULE(r.f[0].t, x.t), (x.t < r.f[1].t) if sg else ULT(x.t, r.f[1].t)), 'bool'))
    if base in ('std::ops::RangeInclusive::contains', 'core::ops::RangeInclusive::contains'):
        r = deref(args[0]); x = deref(args[1])
        sg = bvw(x.ty)[1]
        return R(V(And((r.f[0].t <= x.t) if sg else ULE(r.f[0].t, x.t), (x.t <= r.f[1].t) if sg else ULE(x.t, r.f[1].t)), 'bool'))
    if base in ('std::ops::RangeInclusive::new', 'core::ops::RangeInclusive::new'): return R(Agg([args[0], args[1]], 'RangeInclusive'))
    m = re.match(r'<\[(\w+); (\d+)\] as Index(Mut)?<std::ops::RangeInclusive<usize>>>::index(_mut)?$', base)
    if m:
        rng = args[1]; lo = simplify(rng.f[0].t); hi = simplify(rng.f[1].t)
        if is_bv_value(lo) and is_bv_value(hi): return R(Opaque('subarray', (args[0], lo.as_long(), hi.as_long())))
    m = re.match(r'core::slice::<impl \[(\w+)\]>::copy_from_slice$', base)
    if m:
        dst, src = args
        def vals(x):
            if isinstance(x, Opaque) and x.tag == 'subarray':
                a = deref(x.args[0]); return a.f[x.args[1]:x.args[2] + 1]
            x = deref(x)
            if isinstance(x, Agg): return x.f
            raise Unsupported(f'copy_from_slice arg {x}')
        sv = vals(src)
        if isinstance(dst, Opaque) and dst.tag == 'subarray':
            r, lo, hi = dst.args; a = eng.get(st, r.frame, r.local, r.proj); f = list(a.f)
            if len(sv) != hi - lo + 1: eng.finish(st, 'panic', ('copy_from_slice: length mismatch', fr.func.name, fr.bb)); return None
            f[lo:hi + 1] = sv; eng.put(st, r.frame, r.local, r.proj, Agg(f, a.ty, a.kind))
        elif isinstance(dst, Ref):
            a = eng.get(st, dst.frame, dst.local, dst.proj)
            if len(sv) != len(a.f): eng.finish(st, 'panic', ('copy_from_slice: length mismatch', fr.func.name, fr.bb)); return None
            eng.put(st, dst.frame, dst.local, dst.proj, Agg(list(sv), a.ty, a.kind))
        else: raise Unsupported(f'copy_from_slice dst {dst}')
        return R(Agg([], '()'))
    if base.endswith('as Clone>::clone') or base.endswith('::clone') and len(args) == 1:
        v = deref(args[0])
        if isinstance(v, (V, Agg, Enum, Opaque, Str)): return R(v)
    if base.startswith('Option::') and base.endswith('::cloned'):
        o = args[0]; return R(Enum(o.d, {k: [deref(x) for x in p] for k, p in o.payload.items()}, 'Option'))
    if base in ('std::mem::drop', 'core::mem::drop', 'std::mem::forget'): return R(Agg([], '()'))
    if base.endswith('as From<T>>::from') or base.endswith('as Into<T>>::into'): return R(args[0])
    m = re.match(r'<(\w+) as From<bool>>::from$', base)
    if m and m.group(1) in INT_TYPES:
        w1 = bvw(m.group(1))[0]; return R(V(If(args[0].t, BitVecVal(1, w1), BitVecVal(0, w1)), m.group(1)))
    m = re.match(r'<(\w+) as Into<(\w+)>>::into$', base)
    if m and m.group(1) in INT_TYPES and m.group(2) in INT_TYPES: return R(eng.cast(args[0], m.group(2), 'IntToInt'))
    m = re.match(r'<(\w+) as (?:From|TryFrom)<(\w+)>>::(from|try_from)$', base)
    if m and m.group(1) in INT_TYPES and m.group(2) in INT_TYPES:
        a = args[0]; w0, s0 = bvw(m.group(2)); w1, s1 = bvw(m.group(1))
        if m.group(3) == 'from': return R(eng.cast(a, m.group(1), 'IntToInt'))
        r = eng.cast(a, m.group(1), 'IntToInt')
        back = eng.cast(r, 'i128' if (s0 or s1) else 'u128', 'IntToInt').t
        orig = eng.cast(a, 'i128' if (s0 or s1) else 'u128', 'IntToInt').t
        ok = back == orig
        return R(Enum(If(ok, BitVecVal(0, 64), BitVecVal(1, 64)), {0: [r], 1: [Opaque('tryfromerr')]}, 'Result'))
    m = re.match(r'<(\w+) as TryInto<(\w+)>>::try_into$', base)
    if m and m.group(1) in INT_TYPES and m.group(2) in INT_TYPES:
        a = args[0]; s0 = bvw(m.group(1))[1]; s1 = bvw(m.group(2))[1]
        r = eng.cast(a, m.group(2), 'IntToInt'); wide = 'i128' if (s0 or s1) else 'u128'
        ok = eng.cast(r, wide, 'IntToInt').t == eng.cast(a, wide, 'IntToInt').t
        return R(Enum(If(ok, BitVecVal(0, 64), BitVecVal(1, 64)), {0: [r], 1: [Opaque('tryfromerr')]}, 'Result'))
    m = re.match(r'<(\w+) as Partial(Eq|Ord)>::(eq|ne|lt|le|gt|ge)$', base)
    if m and m.group(1) in INT_TYPES:
        a = deref(args[0]); b = deref(args[1])
        return R(eng.binop({'eq': 'Eq', 'ne': 'Ne', 'lt': 'Lt', 'le': 'Le', 'gt': 'Gt', 'ge': 'Ge'}[m.group(3)], a, b))
    return NotImplemented


# ------------------------------------------------------------------------------------------ dumping MIR
def source_key(repo, features):
    h = hashlib.sha256()
    for p in sorted(glob.glob(os.path.join(repo, 'src', '**', '*.rs'), recursive=True)) + [os.path.join(repo, 'Cargo.toml'), os.path.join(repo, 'Cargo.lock')]:
        h.update(p.encode()); h.update(open(p, 'rb').read())
    h.update(repr(features).encode())
    return h.hexdigest()[:20]
