"""Translation validation of the Cranelift front end (src/cranelift.rs): the CLIF text built by the real compiler for a
concrete program (hook H2) is executed symbolically (clifsym) and compared with the interpreter -- the MIR of
execute_program executed symbolically on the same program -- for all packet / metadata contents.  Used by C04, C08, C09, C11, C18."""
import traceback, json
from z3 import (BitVec, BitVecVal, BoolVal, And, Or, Not, If, ULT, ULE, UGT, UGE, URem, Extract, ZeroExt, Select, simplify, is_true, is_false)
import common, mirsym, interp, spec, obl, clifsym, ref, jitwhole, jitcheck
from obl import mval
from ref import insn, lddw
from driver import Driver


def f1_program(inst):
    """a whole program around one instruction: operands come from the metadata buffer, the effect is folded into r0 / memory"""
    opc, d, s, off, imm, nimm = inst
    k, info = spec.classify(opc)
    pre = []
    used = []
    if k in ('alu', 'endian', 'jcond', 'ldx', 'stx', 'st', 'xadd', 'ldind', 'lddw', 'ldabs'):
        regs = []
        if k not in ('lddw', 'ldabs') and not (k == 'alu' and info['op'] == 'mov' ): regs.append(d)
        elif k == 'alu' and info['op'] == 'mov' and not info['x']: pass
        if k in ('alu', 'jcond') and info.get('x'): regs.append(s)
        if k == 'alu' and info['op'] == 'mov' and info['x']: regs = [s]
        if k in ('ldx', 'ldind'): regs = [s]
        if k in ('stx', 'xadd'): regs = [d, s]
        if k == 'st': regs = [d]
        used = [r for r in dict.fromkeys(regs) if r != 10]
    if k == 'call': used = [2, 3, 4, 5, 1]
    j = 0
    for r in [x for x in used if x != 1] + [x for x in used if x == 1]:
        pre.append(insn(0x79, r, 1, 8 * j)); j += 1             # ldxdw r, [r1 + 8j]   (r1 = metadata buffer at entry)
    body = [insn(opc, d, s, off, imm)]
    if k == 'lddw': body.append(insn(0, 0, 0, 0, nimm))
    post = []
    if k in ('alu', 'endian', 'lddw', 'ldx'): post = [insn(0xbf, 0, d), insn(0x95)]
    elif k in ('ldabs', 'ldind', 'call'): post = [insn(0x95)]
    elif k in ('st', 'stx', 'xadd'): post = [insn(0xb7, 0, 0, 0, 0), insn(0x95)]
    elif k in ('ja', 'jcond'):
        body = [insn(opc, d, s, 2, imm)]
        post = [insn(0xb7, 0, 0, 0, 1), insn(0x95), insn(0xb7, 0, 0, 0, 2), insn(0x95)]
    return b''.join(pre + body + post), 8 * max(j, 1)


class Ctx:
    def __init__(self, timeout_ms):
        mir, key = common.load_mir('std'); tt = common.type_table()
        self.I = interp.Interp(mir, tt, nranges=0, overflow_panics=False, timeout_ms=timeout_ms)
        self.I.eng.max_paths = 4000
        self.drv = Driver.get('dev', features=('std', 'cranelift')); self.pr = obl.Prover(max(timeout_ms, 60000), common.seed()); self.timeout_ms = timeout_ms


def region_assumptions(S, prog_len):
    a = []
    regs = [(S.mem_base, S.mem_len), (S.mbuff_base, S.mbuff_len), (S.prog_base, BitVecVal(prog_len, 64)), (S.stack_base, BitVecVal(512, 64))]
    for b, l in regs[:2]: a.append(ULE(l, 1 << 32))
    # distinct allocations do not overlap (packet and metadata buffer are &mut [u8] / separate buffers in every wrapper)
    for i in range(len(regs)):
        for j in range(i + 1, len(regs)):
            (b1, l1), (b2, l2) = regs[i], regs[j]
            # (an empty slice's dangling pointer does not point into or at the edge of another allocation either)
            a.append(Or(ULE(b1 + l1, b2), ULE(b2 + l2, b1)))
            a.append(Or(l1 != 0, ULT(b1, b2), UGT(b1, b2 + l2)))
            a.append(Or(l2 != 0, ULT(b2, b1), UGT(b2, b1 + l1)))
    return a


def compile_clif(ctx, prog, vm='mbuff', helpers=(), fixed=None):
    return ctx.drv.request(dict(op='compile', vm=vm, prog=prog.hex(), engine='cranelift', helpers=[list(h) for h in helpers], fixed=list(fixed) if fixed else None))


def clif_params(S, vm):
    null_if_empty = If(S.mem_len == 0, BitVecVal(0, 64), S.mem_base)
    if vm == 'mbuff': return [null_if_empty, S.mem_len, S.mbuff_base, S.mbuff_len]
    if vm == 'raw': return [null_if_empty, S.mem_len, BitVecVal(0, 64), BitVecVal(0, 64)]
    if vm == 'nodata': return [BitVecVal(0, 64), BitVecVal(0, 64), BitVecVal(0, 64), BitVecVal(0, 64)]
    raise ValueError(vm)


def check_program(ctx, name, prog, vm='mbuff', helpers=(), props=('C04',), extra_assume=(), role='clif-program', inst=None):
    pr = ctx.pr; S = ctx.I.S; cands = []
    r = compile_clif(ctx, prog, vm, helpers)
    if r.get('status') != 'ok':
        # a native observation: accepted by the verifier, no local call, every helper it calls registered - and Cranelift refuses or panics
        cands = [dict(role=f'{role}/compile-refused', detail=f'cranelift_compile fails on the verifier-accepted program {name} (helpers registered: {[h[0] for h in helpers]}): {r.get("status")} {str(r.get("msg"))[:160]}', model=None, prog=prog.hex(), vm=vm, helpers=[list(h) for h in helpers], friendly=True)]
        return cands
    try:
        C = clifsym.Clif(r['clif'], ctx.timeout_ms)
    except clifsym.Unparsable as e:
        pr.out['errors'].append(f'{name}: CLIF parser: {e}'); return cands
    C.hcall = S.hcall; C.helper_addr = S.helper; C.fn_key = {fn: k for k, fn in r.get('helper_refs', [])}
    C.slot_base = {ss: S.stack_base for ss in C.F.slots}
    for ss, sz in C.F.slots.items():
        pr.out['obligations'] += 1
        if sz != 512: cands.append(dict(role=f'{role}/stack-slot-size', detail=f'stack slot of {sz} bytes', model=None, friendly=True))
        else: pr.out['discharged'] += 1
    assume = region_assumptions(S, len(prog)) + list(extra_assume)
    if vm in ('raw', 'nodata'): assume.append(S.mbuff_len == 0)
    if vm == 'nodata': assume.append(S.mem_len == 0)
    try:
        ips = jitwhole.interp_whole(ctx.I, prog, assume)
        rets, traps = C.execute(S.M0, clif_params(S, vm), [simplify(c) for c in assume] + ctx.I._base())
    except (mirsym.Unsupported, clifsym.Unparsable) as e:
        pr.out['errors'].append(f'{name}: {type(e).__name__}: {e}'); return cands
    oks = [p for p in ips if p.kind == 'return' and is_true(simplify(p.payload.disc() == 0))]
    errs = [p for p in ips if p.kind == 'return' and not is_true(simplify(p.payload.disc() == 0))]
    for p in ips:
        if p.kind != 'return': pr.out['errors'].append(f'{name}: interpreter path of kind {p.kind}: {p.payload}')
    small = [[ULE(S.mem_len, 64), ULE(S.mbuff_len, 96), UGE(S.mbuff_len, 48), UGE(S.mem_len, 16), S.mem_base == 0x100000000000, S.mbuff_base == 0x200000000000, S.stack_base == 0x300000000000],
             [ULE(S.mem_len, 64), ULE(S.mbuff_len, 96)], []]
    def cand(aspect, detail, m, extra=None):
        md = None
        if m is not None:
            m = pr.refine(small, m)
            md = dict(mem_len=mval(m, S.mem_len), mbuff_len=mval(m, S.mbuff_len), mem_base=mval(m, S.mem_base), mbuff_base=mval(m, S.mbuff_base), stack_base=mval(m, S.stack_base))
            md['mem_bytes'] = [mval(m, Select(S.M0, S.mem_base + i)) for i in range(min(md['mem_len'], 128))]
            md['mbuff_bytes'] = [mval(m, Select(S.M0, S.mbuff_base + i)) for i in range(min(md['mbuff_len'], 128))]
            if extra: md.update({k2: mval(m, v) for k2, v in extra.items()})
        if inst:
            k_, i_ = spec.classify(inst[0])
            if k_ == 'jcond' and not i_['x'] and i_['w'] == 64 and i_['op'] in ('jeq', 'jne', 'jgt', 'jge', 'jlt', 'jle') and inst[4] < 0 and aspect == 'result':
                aspect += ':negative-imm-in-unsigned-64bit-compare'
            rl = f'{role}/{aspect}'; detail = f'{detail} [{name}]'
        else: rl = f'{role}/{name}/{aspect}'
        cands.append(dict(role=rl, detail=detail, model=md, whole=True, prog=prog.hex(), vm=vm, helpers=[list(h) for h in helpers], inst=list(inst) if inst else None, friendly=True))
    a_sym = BitVec('a_any', 64)
    in_bufs = Or(And(ULE(S.mem_base, a_sym), ULT(a_sym, S.mem_base + S.mem_len)), And(ULE(S.mbuff_base, a_sym), ULT(a_sym, S.mbuff_base + S.mbuff_len)))
    oob_by_construction = False
    if inst:
        k_i, i_i = spec.classify(inst[0])
        oob_by_construction = k_i in ('ldx', 'st', 'stx', 'xadd') and (inst[2] if k_i == 'ldx' else inst[1]) == 10 and inst[3] + i_i['size'] > 0      # r10-based access reaching past the stack top: refused for every input
    if not oks and 'C11' not in props and not oob_by_construction: pr.out['errors'].append(f'{name}: interpreter never returns a value (vacuous)')
    if 'C04' in props or 'C08' in props or 'C09' in props:
        for ip_ in oks:
            icond = list(ip_.st.pc); v = ip_.payload.payload[0][0].t; covered = []
            for cs in rets:
                both = icond + cs.pc
                r0, _ = pr.check(both, [])
                if r0 == 'unsat': continue
                if r0 == 'unknown': pr.out['inconclusive'].append(f'{name}: path pairing'); continue
                covered.append(And(*cs.pc) if cs.pc else BoolVal(True))
                rv = cs.block[1]
                if not getattr(ctx, 'validated_' + name, False):
                    setattr(ctx, 'validated_' + name, True)
                    # an access through a register loaded from input data has an input-dependent *address*: the model's region addresses are not the native ones
                    k_v = spec.classify(inst[0])[0] if inst else None
                    data_addr = inst is not None and (k_v == 'ldx' or      # ldx through r10 reads a stack byte the program never wrote: outside C04's statement (and a known finding of C10)
                                                      (k_v in ('st', 'stx') and inst[1] != 10) or k_v == 'xadd')      # xadd: the alignment test depends on the address itself
                    import validate
                    if not data_addr: validate.validate(pr, ctx.drv, name, S, both, {'interp': v, 'cranelift': rv}, prog, vm, helpers, None)
                rr, m = pr.prove(f'{name}:result', both, rv == v, sample=f'{name} ({vm}): CLIF return value = interpreter Ok(v) for all inputs')
                if rr == 'sat': cand('result', 'returned value differs from the interpreter', m, dict(got=rv, want=v))
                rr, m = pr.prove(f'{name}:buffers', both + [in_bufs], Select(cs.mem, a_sym) == Select(ip_.st.mem, a_sym), sample=f'{name}: packet and metadata bytes after = interpreter')
                if rr == 'sat': cand('buffers', 'packet/metadata bytes differ from the interpreter', m, dict(addr=a_sym))
                if 'C08' in props:
                    hx = [e for e in cs.events if e[0] == 'hcall']; hi = [e for e in ip_.st.events if e[0] == 'hcall']
                    pr.out['obligations'] += 1
                    if len(hx) != len(hi): cand('helper-call-count', f'{len(hx)} helper calls in CLIF vs {len(hi)} in the interpreter', None)
                    else:
                        pr.out['discharged'] += 1
                        for n_, (ex, ei) in enumerate(zip(hx, hi)):
                            rr, m = pr.prove(f'{name}:helper{n_}-id', both, ex[1] == ei[1], sample=f'{name}: CLIF call #{n_} targets the function registered under the same id')
                            if rr == 'sat': cand('helper-target', f'call #{n_} targets another helper id', m)
                            for j in range(5):
                                rr, m = pr.prove(f'{name}:helper{n_}-arg{j+1}', both, ex[2][j] == ei[2][j])
                                if rr == 'sat': cand('helper-args', f'call #{n_}: argument {j+1} differs from r{j+1}', m)
            if covered:
                rr, m = pr.prove(f'{name}:coverage', icond, Or(*covered))
                if rr == 'sat': cand('traps-where-interpreter-returns', 'compiled code traps / has no path for an input on which the interpreter returns a value', m)
            else:
                rr, m = pr.check(icond, [])
                if rr == 'sat': cand('traps-where-interpreter-returns', 'no CLIF path matches an interpreter path that returns a value', m)
    if 'C11' in props:
        # every access on every path (returning or trapping later) lies wholly inside stack, packet or metadata buffer
        def inreg(a, n):
            return Or(*[And(ULE(b, a), ULE(a, a + n), ULE(a + n, b + l)) for b, l in ((S.stack_base, BitVecVal(512, 64)), (S.mem_base, S.mem_len), (S.mbuff_base, S.mbuff_len))])
        for cs in rets + traps:
            for (kind, addr, n, loc) in cs.log:
                rr, m = pr.prove(f'{name}:access-in-region:{kind}@{loc}', cs.pc, inreg(addr, n), sample=f'{name}: {kind} of {n} bytes emitted at insn {loc} lies inside stack/packet/metadata on every path that reaches it')
                if rr == 'sat': cand(f'out-of-region-{"store" if "write" in kind else "load"}', f'{n}-byte {kind} outside every region is performed (eBPF insn {loc})', m, dict(addr=addr))
        # completeness: a bounds-check trap happens only if the access it guards is not wholly inside a region
        for tr in traps:
            if tr.block[1] != 'heap_oob': continue
            pr.out['obligations'] += 1
            if tr.guard is None: pr.out['errors'].append(f'{name}: cannot find the access guarded by the trap at insn {tr.block[2]}'); continue
            pr.out['discharged'] += 1
            kind, addr, n, loc = tr.guard
            rr, m = pr.prove(f'{name}:trap-only-out-of-region@{loc}', tr.pc, Not(inreg(addr, n)), sample=f'{name}: the bounds-check trap of insn {loc} fires only if the {n}-byte access is not wholly inside stack/packet/metadata')
            if rr == 'sat': cand('in-region-access-traps', f'{n}-byte {kind} wholly inside a region traps (eBPF insn {loc})', m, dict(addr=addr))
    if rets: pr.out['witnesses'] += 1       # at least one path of the emitted IR reaches a return (vacuity witness)
    pr.out['programs'] += 1
    return cands


def worker(args):
    items, props, timeout_ms = args
    try:
        ctx = Ctx(timeout_ms); cands = []
        for it in items:
            try:
                S = ctx.I.S
                ex = [UGE(S.mbuff_len, it['min_mbuff']), UGE(S.mem_len, it.get('min_mem', 1))] if 'min_mbuff' in it else []
                cands += check_program(ctx, it['name'], bytes.fromhex(it['prog']), vm=it.get('vm', 'mbuff'), helpers=[tuple(h) for h in it.get('helpers', [])], props=props,
                                       extra_assume=ex, role=it.get('role', 'clif-program'), inst=it.get('inst'))
            except Exception as e:
                ctx.pr.out['errors'].append(f'{it["name"]}: {e}\n{traceback.format_exc()[-1200:]}')
        ctx.pr.out['functions'] = ctx.I.functions_encoded(); ctx.pr.out['stubs'] = sorted(ctx.I.stubs_used)
        Driver.close_all()
        return dict(out=ctx.pr.out, cands=cands)
    except Exception as e:
        return dict(out=dict(errors=[f'worker crashed: {e}\n{traceback.format_exc()}']), cands=[])


def run_items(items, props, timeout_ms):
    import multiprocessing as mp
    if not items: return dict(obligations=0, discharged=0), []
    Driver('dev', features=('std', 'cranelift')).build()
    nj = min(common.jobs(), len(items))
    with mp.Pool(nj) as pool:
        res = pool.map(worker, [(items[i::nj], props, timeout_ms) for i in range(nj)])
    out = dict(obligations=0, discharged=0, inconclusive=[], solver_s=0.0, nontrivial=[], witnesses=0, twins=0, samples=[], errors=[], programs=0, functions={}, stubs=[])
    cands = []
    for r in res:
        o = r['out']
        for k in ('obligations', 'discharged', 'solver_s', 'witnesses', 'twins', 'programs'): out[k] += o.get(k, 0)
        if o.get('validation'):
            x = out.setdefault('validation', dict(instances=0, agree=0, skipped=0))
            for k in x: x[k] += o['validation'].get(k, 0)
        if o.get('xcheck'):
            x = out.setdefault('xcheck', dict(exported=0, agree=0, unknown=0, disagree=0))
            for k in x: x[k] += o['xcheck'].get(k, 0)
        for k in ('inconclusive', 'nontrivial', 'errors'): out[k] += o.get(k, [])
        out['samples'] += o.get('samples', [])[:2]; out['functions'].update(o.get('functions', {}))
        for s in o.get('stubs', []):
            if s not in out['stubs']: out['stubs'].append(s)
        cands += r['cands']
    return out, cands


def f1_items(tier, kinds=None):
    items = []
    for inst in jitcheck.instances(tier):
        k = spec.classify(inst[0])[0]
        if kinds and k not in kinds: continue
        if k == 'call' and False: continue
        prog, need = f1_program(inst)
        helpers = [[inst[4] & 0xffffffff, 'h1']] if k == 'call' else []
        items.append(dict(name=f'{spec.opname(inst[0])}[d{inst[1]},s{inst[2]},off{inst[3]},imm{inst[4]}' + (f',hi{inst[5]}' if k == 'lddw' else '') + ']', prog=prog.hex(), vm='mbuff',
                          helpers=helpers, min_mbuff=max(need, 8), min_mem=1 if k in ('ldabs', 'ldind') else 0, inst=list(inst), role=f'clif/{spec.opname(inst[0])}'))
    return items


def replay(c, engines=('interp', 'cranelift')):
    md = c.get('model')
    if md is None: return True, 'structural'
    prog = bytes.fromhex(c['prog'])
    mem = bytes(md.get('mem_bytes', [])) + bytes(max(0, min(md['mem_len'], 4096) - len(md.get('mem_bytes', []))))
    mbuff = bytes(md.get('mbuff_bytes', [])) + bytes(max(0, min(md['mbuff_len'], 4096) - len(md.get('mbuff_bytes', []))))
    # pointers stored in the metadata buffer that point into a region of the model are relocated to the real buffers (by the driver)
    mb = bytearray(mbuff); relocs = []
    regs = [('mem', md['mem_base'], md['mem_len']), ('mbuff', md['mbuff_base'], md['mbuff_len'])]
    d = Driver.get('dev', features=('std', 'cranelift'))
    for off in range(0, len(mb) - 7, 8):
        v = int.from_bytes(mb[off:off + 8], 'little')
        for nm, bse, l in regs:
            if bse - 64 <= v <= bse + l + 64: relocs.append(('mbuff', off, nm, v - bse)); break
    res = {}
    for eng in engines:
        res[eng] = d.run(prog, vm=c.get('vm', 'mbuff'), mem=mem, mbuff=bytes(mb), engine=eng, helpers=[tuple(h) for h in c.get('helpers', [])], bufpatch=relocs)
    a, b = res[engines[0]], res[engines[1]]
    c['replay'] = dict(mem=mem.hex(), mbuff=bytes(mb).hex(), relocs=relocs, results={e: {k: v for k, v in r.items() if k in ('status', 'value', 'msg', 'sig', 'mem', 'mbuff')} for e, r in res.items()})
    asp = c['role'].split('/')[-1]
    if asp.startswith('out-of-region') or asp == 'refused-access-performed':
        if a.get('status') == 'err' and b.get('status') == 'ok': return True, f'interpreter refuses ({a.get("msg", "")[:80]}), compiled code returns {b.get("value")}'
        if b.get('status') == 'signal' and b.get('sig') != 4: return True, f'compiled code dies with signal {b.get("sig")} (not the trap)'
        return False, f'interpreter {a.get("status")}, compiled {b.get("status")} {b.get("sig", "")}'
    if a.get('status') != 'ok': return None, f'interpreter run is {a.get("status")}: outside the premise'
    if b.get('status') != 'ok': return True, f'interpreter returns {a["value"]:#x}; compiled code: {b.get("status")} {b.get("sig", b.get("msg"))}'
    if a['value'] != b['value']: return True, f'interpreter returns {a["value"]:#x}, compiled code {b["value"]:#x}'
    if a.get('mem') != b.get('mem') or a.get('mbuff') != b.get('mbuff'): return True, 'buffers differ'
    return False, 'engines agree natively'
