"""Extraction of the interpreter's transition relation from the MIR of interpreter::execute_program:
one loop iteration from an arbitrary (havocked) loop-head state, and the prelude from function entry to the loop head."""
import re
from z3 import (BitVec, BitVecVal, Bool, BoolVal, Array, BitVecSort, BoolSort, Function, Store, Select, And, Or, Not, If,
                ULT, ULE, UGT, UGE, URem, Extract, ZeroExt, Concat, simplify, BVAddNoOverflow)
import mirsym
from mirsym import V, Agg, Enum, Slice, Opaque, Ptr, Ref, Unsupported

B64 = lambda n: BitVec(n, 64)


class PreState:
    pass


class Interp:
    def __init__(self, mir, types, nranges=2, overflow_panics=True, timeout_ms=20000, stack_base=None):
        self.mir = mir; self.types = types
        self.f = mir.funcs['execute_program']
        self.eng = mirsym.Engine(mir, types, timeout_ms)
        self.eng.overflow_panics = overflow_panics
        self.eng.summarize = {'check_mem', 'get_insn', 'stack_usage', 'get_stack_usage', 'get_registers', 'get_return_address'}
        S = self.S = PreState()
        S.prog_base, S.prog_len = B64('prog_base'), B64('prog_len')
        S.mem_base, S.mem_len = B64('mem_base'), B64('mem_len')
        S.mbuff_base, S.mbuff_len = B64('mbuff_base'), B64('mbuff_len')
        S.stack_base = B64('stack_base') if stack_base is None else stack_base
        S.ranges = [(Bool(f'rg{i}_present'), B64(f'rg{i}_lo'), B64(f'rg{i}_hi')) for i in range(nranges)]
        S.registered = Function('registered', BitVecSort(32), BoolSort())
        S.helper = Function('helper', BitVecSort(32), BitVecSort(64))
        S.hcall = Function('hcall', BitVecSort(64), *[BitVecSort(64)] * 5, BitVecSort(64))
        S.usage_some = Function('usage_some', BitVecSort(64), BoolSort())
        S.usage_custom = Function('usage_custom', BitVecSort(64), BoolSort())
        S.usage_val = Function('usage_val', BitVecSort(64), BitVecSort(16))
        S.M0 = Array('M0', BitVecSort(64), BitVecSort(8))
        self.stubs_used = set(); self.usage_concrete = None
        self._install_stubs()
        heads = self.f.loop_heads()
        if len(heads) != 1: raise Unsupported(f'execute_program: expected one loop, found {heads}')
        self.head = heads[0]
        self.names = {n: self.f.local_of(n) for n in ('reg', 'insn_ptr', 'stack_frame_idx', 'stacks')}
        self._head_state = None
    # ---------------------------------------------------------------- environment stubs
    def _install_stubs(self):
        S = self.S; eng = self.eng; used = self.stubs_used
        def from_elem(e, st, fr, callee, args, R):
            used.add('vec![0u8; STACK_SIZE] -> fresh allocation [stack_base, stack_base+512)')
            n = simplify(args[1].t).as_long()
            if n != 512: raise Unsupported(f'stack allocation of {n} bytes (expected 512)')
            return R(Slice(S.stack_base, BitVecVal(n, 64)))
        eng.add_stub(r'^(std|alloc)::vec::from_elem$', from_elem)
        def hm_get(e, st, fr, callee, args, R):
            used.add('HashMap<u32,Helper>::get -> uninterpreted registered(k)/helper(k)')
            key = e.deref(st, args[1]).t
            return R(Enum(If(S.registered(key), BitVecVal(1, 64), BitVecVal(0, 64)), {0: [], 1: [Opaque('helperfn', (key,))]}, 'Option'))
        eng.add_stub(r'^hashbrown::HashMap::get$', hm_get)
        def usage(e, st, fr, callee, args, R):
            used.add('StackUsage::stack_usage_for_local_func(pc) -> uninterpreted Option<StackUsageType> per pc')
            pcv = args[1].t
            if self.usage_concrete is not None:
                # whole-program mode: the map built by StackVerifier::stack_validate for this program (no calculator, or the given sizes)
                pv = simplify(pcv)
                if not hasattr(pv, 'as_long'): raise Unsupported('stack usage lookup at a symbolic pc in whole-program mode')
                if pv.as_long() not in self.usage_concrete: return R(Enum(0, {0: []}, 'Option'))
                sz = self.usage_concrete[pv.as_long()]
                inner = Enum(0, {0: [], 1: [V(BitVecVal(0, 16), 'u16')]}, 'StackUsageType') if sz is None else Enum(1, {0: [], 1: [V(BitVecVal(sz, 16), 'u16')]}, 'StackUsageType')
                return R(Enum(1, {1: [inner]}, 'Option'))
            return R(Enum(If(S.usage_some(pcv), BitVecVal(1, 64), BitVecVal(0, 64)),
                          {0: [], 1: [Enum(If(S.usage_custom(pcv), BitVecVal(1, 64), BitVecVal(0, 64)), {0: [], 1: [V(S.usage_val(pcv), 'u16')]}, 'StackUsageType')]}, 'Option'))
        eng.add_stub(r'StackUsage::stack_usage_for_local_func$', usage)
        eng.add_stub(r'^hashbrown::HashSet::iter$', lambda e, st, fr, callee, args, R: R(Opaque('allowed_iter')))
        def any_(e, st, fr, callee, args, R):
            used.add(f'HashSet<Range<u64>>::iter().any(closure) -> closure MIR evaluated on {len(S.ranges)} symbolic ranges')
            clo = args[1]
            f = e.lookup('<{closure@%s} as FnMut<x>>::call_mut' % clo.cid)
            if f is None: raise Unsupported('any(): closure body not found')
            res = BoolVal(False)
            for (p, lo, hi) in S.ranges:
                rng = Agg([V(lo, 'u64'), V(hi, 'u64')], 'Range', 'struct')
                # closure env is passed by &mut: wrap in a temp local
                fr.locals['__clo'] = clo; fr.locals['__rng'] = rng
                val = e.merged_pure(st, f, [Ref(fr, '__clo', []), Ref(fr, '__rng', [])])
                if val is NotImplemented or val is None: raise Unsupported('any(): closure not pure')
                res = Or(res, And(p, val.t))
            return R(V(res, 'bool'))
        eng.add_stub(r'^<hashbrown::hash_set::Iter.* as Iterator>::any$', any_)
        def indirect(e, st, fr, f, args, R):
            if isinstance(f, Opaque) and f.tag == 'helperfn':
                used.add('call through a helper fn pointer -> uninterpreted hcall(helper(k), a1..a5) + call event')
                fn = S.helper(f.args[0])
                r = S.hcall(fn, *[a.t for a in args]); st.events.append(('hcall', f.args[0], [a.t for a in args]))
                return R(V(r, 'u64'))
            return NotImplemented
        eng.ctx['indirect_call'] = indirect
    # ---------------------------------------------------------------- assumptions
    def region_assumptions(self):
        S = self.S; a = []
        for b, l in ((S.prog_base, S.prog_len), (S.mem_base, S.mem_len), (S.mbuff_base, S.mbuff_len), (S.stack_base, BitVecVal(512, 64))):
            a.append(BVAddNoOverflow(b, l, False))          # a Rust slice never wraps around the address space
            a.append(b != 0)                                # slice pointers are non-null (dangling for empty slices)
            a.append(ULE(b + l, 1 << 63))                   # user-space addresses: lower half of the address space
        a.append(UGE(S.stack_base, 1 << 20))                # the heap allocation is not in the first MiB
        # the eBPF stack is a fresh heap allocation: disjoint from the caller's buffers and from the program
        for b, l in ((S.prog_base, S.prog_len), (S.mem_base, S.mem_len), (S.mbuff_base, S.mbuff_len)):
            a.append(Or(l == 0, ULE(b + l, S.stack_base), ULE(S.stack_base + 512, b)))
        a.append(ULE(S.prog_len, 8 * 1000000)); a.append(S.prog_len != 0); a.append(URem(S.prog_len, 8) == 0)
        for (p, lo, hi) in S.ranges: a.append(Or(Not(p), ULE(lo, hi)))
        return a
    def _base(self):
        if not hasattr(self, '_base_pc'):
            self._base_pc = [simplify(c) for c in self.region_assumptions()]; self.eng.base_n = len(self._base_pc)
        return self._base_pc
    ASSUMPTION_TEXT = [
        'slices never wrap around the address space and have non-null base pointers',
        'all buffers lie in the lower half of the address space (base+len <= 2^63) and the stack allocation above 2^20 (true of user space on every 64-bit OS rbpf targets)',
        'the 512-byte eBPF stack is a fresh allocation disjoint from program, packet and metadata buffer',
        'program length is a non-zero multiple of 8, at most 8,000,000 bytes (checked by check_prog_len, see C06)',
        'registered ranges: start <= end (an empty Range contains nothing)',
    ]
    # ---------------------------------------------------------------- entry / prelude
    def entry_state(self, prog_len=None):
        S = self.S; eng = self.eng
        st = mirsym.State(); st.mem = S.M0
        fr = mirsym.Frame(self.f); fr.tag = 'top'; st.frames.append(fr)
        p = [x[0] for x in self.f.params]
        fr.locals[p[0]] = Enum(1, {1: [Slice(S.prog_base, S.prog_len if prog_len is None else BitVecVal(prog_len, 64))]}, 'Option')
        fr.locals[p[1]] = Enum(1, {1: [Opaque('stack_usage')]}, 'Option')
        fr.locals[p[2]] = Slice(S.mem_base, S.mem_len); fr.locals[p[3]] = Slice(S.mbuff_base, S.mbuff_len)
        fr.locals[p[4]] = Opaque('helpers'); fr.locals[p[5]] = Opaque('allowed')
        st.pc += self._base()
        return st
    def prelude_paths(self):
        """all paths from function entry to the first arrival at the loop head"""
        st = self.entry_state(); k = (self.f.name, self.head); st.visits[k] = 1
        return self.eng.explore(st, cuts={k})
    def head_state(self):
        if self._head_state is None:
            ps = [p for p in self.prelude_paths() if p.kind == 'cut']
            if not ps: raise Unsupported('loop head not reached from entry')
            self._head_state = ps[0].st
        return self._head_state
    # ---------------------------------------------------------------- one loop iteration
    def make_pre(self, opc=None, tag='', fields=None, regs=None, pc=None):
        """fresh symbolic loop-head state; returns (State, PreState-with-fields)"""
        S = self.S; eng = self.eng
        st = self.head_state().fork(); fr = st.frames[0]
        eng.memo.clear()          # summaries depend on the named instruction bytes of this pre-state
        st.pc = list(self._base()); st.log = []; st.events = []; st.visits = {}
        P = PreState(); P.__dict__.update(S.__dict__)
        P.regs = list(regs) if regs is not None else [B64(f'r{i}{tag}') for i in range(11)]
        P.pc = B64('pc' + tag) if pc is None else BitVecVal(pc, 64); P.sfi = B64('sfi' + tag)
        frames_v = eng.fresh_of_type('[StackFrame; 8]', 'fr' + tag)
        P.frames = []
        for a in frames_v.f:
            ra, sv, su = a.f
            P.frames.append((ra.t, [x.t for x in sv.f], (su.d, su.payload[1][0].t)))
            st.pc.append(ULT(su.d, 2))
        body = self.f.loop_body(self.head)
        for l in self.f.assigned_in(body): fr.locals.pop(l, None)
        fr.locals[self.names['reg']] = Agg([V(r, 'u64') for r in P.regs], kind='array')
        fr.locals[self.names['insn_ptr']] = V(P.pc, 'usize')
        fr.locals[self.names['stack_frame_idx']] = V(P.sfi, 'usize')
        fr.locals[self.names['stacks']] = frames_v
        # instruction fields at pc (and the following slot) are named bytes of an otherwise arbitrary memory
        P.opc = BitVecVal(opc, 8) if opc is not None else BitVec('opc' + tag, 8)
        fields = fields or {}
        def fld(name, w): return BitVecVal(fields[name], w) if name in fields else BitVec(name + tag, w)
        P.regbyte = fld('regbyte', 8); P.off = fld('off', 16); P.imm = fld('imm', 32)
        P.nopc = fld('nopc', 8); P.nregbyte = fld('nregbyte', 8); P.noff = fld('noff', 16)
        P.next_imm = fld('next_imm', 32)
        a0 = S.prog_base + 8 * P.pc
        fields = [P.opc, P.regbyte, P.off, P.imm, P.nopc, P.nregbyte, P.noff, P.next_imm]
        bts = []
        for t in fields:
            for i in range(t.size() // 8): bts.append(Extract(8 * i + 7, 8 * i, t) if t.size() > 8 else t)
        # the 16 bytes at prog[8*pc ..] are *named*: M0 is constrained to hold them, and syntactically matching loads
        # (instruction fetches) get the names directly
        st.pc += [Select(S.M0, a0 + i) == b for i, b in enumerate(bts)]
        st.aux['overlay'] = mirsym.Engine.make_overlay(a0, bts)
        P.M = S.M0; st.mem = S.M0
        P.dst = simplify(ZeroExt(60, Extract(3, 0, P.regbyte))); P.src = simplify(ZeroExt(60, Extract(7, 4, P.regbyte)))
        P.n = simplify(P.prog_len / 8) if False else None
        # loop-head invariant: pc within the 1,000,000-instruction limit, frame index 0..8
        st.pc += [ULT(P.pc, 1000000), ULE(P.sfi, 8)]
        P.inv_r10 = self.inv_r10(P.regs[10], P.sfi, P.frames)
        st.pc.append(P.inv_r10)
        k = (self.f.name, self.head)
        return st, P
    def inv_r10(self, r10, sfi, frames):
        """frame-pointer invariant: r10 = stack top - sum of the frame sizes of the suspended callers"""
        tot = BitVecVal(0, 64)
        for j, (ra, sv, (d, v)) in enumerate(frames):
            tot = tot + If(ULT(BitVecVal(j, 64), sfi), If(d == 0, BitVecVal(256, 64), ZeroExt(48, v)), BitVecVal(0, 64))
        return r10 == self.S.stack_base + 512 - tot
    def step_paths(self, st):
        k = (self.f.name, self.head)
        return self.eng.explore(st, cuts={k})
    # ---------------------------------------------------------------- post-state accessors
    def post(self, path):
        fr = path.st.frames[0] if path.st.frames else None
        Q = PreState()
        if path.kind == 'cut':
            Q.regs = [x.t for x in fr.locals[self.names['reg']].f]
            Q.pc = fr.locals[self.names['insn_ptr']].t
            Q.sfi = fr.locals[self.names['stack_frame_idx']].t
            Q.frames = []
            for a in fr.locals[self.names['stacks']].f:
                ra, sv, su = a.f
                Q.frames.append((ra.t, [x.t for x in sv.f], (su.disc(), su.payload[1][0].t if su.payload.get(1) else BitVecVal(0, 16))))
        Q.M = path.st.mem; Q.log = path.st.log; Q.events = path.st.events; Q.cond = path.st.pc
        return Q
    def functions_encoded(self):
        out = {}
        for n in sorted(self.eng.used_funcs):
            if n in self.mir.funcs: out[n] = self.mir.fn_hash(n)
        return out
