"""Assembler / disassembler obligations (C13, C14, C15, C16): symbolic execution of the MIR of assembler::{encode, insn,
operands_tuple}, of the numeric-literal closures of asm_parser and of disassembler::to_insn_vec, with format! decoded
structurally (template bytes + argument list).  The combine grammar itself (which characters tokenise into which
operands) is outside every solver front end available here and is stated as an assumption."""
import re, json
from z3 import (BitVec, BitVecVal, BoolVal, Int, IntVal, Int2BV, BV2Int, And, Or, Not, If, Implies, ULT, ULE, UGT, UGE, Extract, ZeroExt, SignExt, Concat, Select,
                Array, BitVecSort, simplify, is_true, is_false, is_bv_value)
import common, mirsym, spec, obl
from mirsym import V, Agg, Enum, Slice, Opaque, Ptr, Ref, Str, Closure, Unsupported
from obl import mval

# ------------------------------------------------------------------------------------------ expected mnemonic table (from the statement)
def expected_table():
    T = {}
    alu = {'add': 0x00, 'sub': 0x10, 'mul': 0x20, 'div': 0x30, 'or': 0x40, 'and': 0x50, 'lsh': 0x60, 'rsh': 0x70, 'mod': 0x90, 'xor': 0xa0, 'mov': 0xb0, 'arsh': 0xc0}
    for n, o in alu.items():
        T[n] = ('AluBinary', 0x07 | o); T[n + '64'] = ('AluBinary', 0x07 | o); T[n + '32'] = ('AluBinary', 0x04 | o)
    T['neg'] = ('AluUnary', 0x87); T['neg64'] = ('AluUnary', 0x87); T['neg32'] = ('AluUnary', 0x84)
    for sfx, sz in (('w', 0x00), ('h', 0x08), ('b', 0x10), ('dw', 0x18)):
        T['ldabs' + sfx] = ('LoadAbs', 0x20 | sz); T['ldind' + sfx] = ('LoadInd', 0x40 | sz); T['ldx' + sfx] = ('LoadReg', 0x61 | sz)
        T['st' + sfx] = ('StoreImm', 0x62 | sz); T['stx' + sfx] = ('StoreReg', 0x63 | sz)
    jc = {'jeq': 0x10, 'jgt': 0x20, 'jge': 0x30, 'jset': 0x40, 'jne': 0x50, 'jsgt': 0x60, 'jsge': 0x70, 'jlt': 0xa0, 'jle': 0xb0, 'jslt': 0xc0, 'jsle': 0xd0}
    for n, o in jc.items(): T[n] = ('JumpConditional', 0x05 | o); T[n + '32'] = ('JumpConditional', 0x06 | o)
    for sz in (16, 32, 64): T[f'be{sz}'] = (f'Endian({sz})', 0xdc); T[f'le{sz}'] = (f'Endian({sz})', 0xd4)
    T['exit'] = ('NoOperand', 0x95); T['ja'] = ('JumpUnconditional', 0x05); T['call'] = ('Call', 0x85); T['callx'] = ('Callx', 0x85); T['lddw'] = ('LoadImm', 0x18)
    return T


KINDS = ['AluBinary', 'AluUnary', 'LoadImm', 'LoadAbs', 'LoadInd', 'LoadReg', 'StoreImm', 'StoreReg', 'JumpUnconditional', 'JumpConditional', 'Call', 'Callx', 'Endian', 'NoOperand']


def in_rng(x, lo, hi): return And(x >= lo, x < hi)      # signed 64-bit


def expected_encode(kind, opc, ops):
    """documented result of encode for an operand list `ops` (list of (disc, a, b) with a, b 64-bit): list of
    (condition, fields dict) alternatives; anything else must be an error.  Operand discriminants: 0 Register, 1 Integer, 2 Memory, 3 Nil"""
    REG, INT, MEM = 0, 1, 2
    def sh(*want): return And(*[o[0] == w for o, w in zip(ops, want)]) if len(ops) == len(want) else BoolVal(False)
    Z = BitVecVal(0, 64); alts = []
    k = kind.split('(')[0]
    if k == 'AluBinary':
        alts.append((sh(REG, REG), dict(opc=opc | 0x08, dst=ops[0][1], src=ops[1][1], off=Z, imm=Z) if len(ops) == 2 else None))
        alts.append((sh(REG, INT), dict(opc=opc, dst=ops[0][1], src=Z, off=Z, imm=ops[1][1]) if len(ops) == 2 else None))
    elif k == 'AluUnary': alts.append((sh(REG), dict(opc=opc, dst=ops[0][1], src=Z, off=Z, imm=Z) if len(ops) == 1 else None))
    elif k == 'LoadAbs': alts.append((sh(INT), dict(opc=opc, dst=Z, src=Z, off=Z, imm=ops[0][1]) if len(ops) == 1 else None))
    elif k == 'LoadInd': alts.append((sh(REG, INT), dict(opc=opc, dst=Z, src=ops[0][1], off=Z, imm=ops[1][1]) if len(ops) == 2 else None))
    elif k == 'LoadReg': alts.append((sh(REG, MEM), dict(opc=opc, dst=ops[0][1], src=ops[1][1], off=ops[1][2], imm=Z) if len(ops) == 2 else None))
    elif k == 'StoreReg': alts.append((sh(MEM, REG), dict(opc=opc, dst=ops[0][1], src=ops[1][1], off=ops[0][2], imm=Z) if len(ops) == 2 else None))
    elif k == 'StoreImm': alts.append((sh(MEM, INT), dict(opc=opc, dst=ops[0][1], src=Z, off=ops[0][2], imm=ops[1][1]) if len(ops) == 2 else None))
    elif k == 'NoOperand': alts.append((sh(), dict(opc=opc, dst=Z, src=Z, off=Z, imm=Z) if len(ops) == 0 else None))
    elif k == 'JumpUnconditional': alts.append((sh(INT), dict(opc=opc, dst=Z, src=Z, off=ops[0][1], imm=Z) if len(ops) == 1 else None))
    elif k == 'JumpConditional':
        alts.append((sh(REG, REG, INT), dict(opc=opc | 0x08, dst=ops[0][1], src=ops[1][1], off=ops[2][1], imm=Z) if len(ops) == 3 else None))
        alts.append((sh(REG, INT, INT), dict(opc=opc, dst=ops[0][1], src=Z, off=ops[2][1], imm=ops[1][1]) if len(ops) == 3 else None))
    elif k == 'Call': alts.append((sh(INT), dict(opc=opc, dst=Z, src=Z, off=Z, imm=ops[0][1]) if len(ops) == 1 else None))
    elif k == 'Callx': alts.append((sh(INT), dict(opc=opc, dst=Z, src=BitVecVal(1, 64), off=Z, imm=ops[0][1]) if len(ops) == 1 else None))
    elif k == 'Endian':
        sz = int(kind[7:-1]); alts.append((sh(REG), dict(opc=opc, dst=ops[0][1], src=Z, off=Z, imm=BitVecVal(sz, 64)) if len(ops) == 1 else None))
    elif k == 'LoadImm':
        alts.append((sh(REG, INT), dict(opc=opc, dst=ops[0][1], src=Z, off=Z, imm=SignExt(32, Extract(31, 0, ops[1][1])), hi=Extract(63, 32, ops[1][1])) if len(ops) == 2 else None))
    out = []
    for c, f in alts:
        if f is None: continue
        rng = And(in_rng(f['dst'], 0, 16), in_rng(f['src'], 0, 16), in_rng(f['off'], -32768, 32768), in_rng(f['imm'], -(1 << 31), 1 << 31))
        out.append((And(c, rng), f))
    return out


def kind_enum(types, kind):
    k = kind.split('(')[0]; vi = types.variant_index(k, 'InstructionType')
    pl = {vi: [V(BitVecVal(int(kind[7:-1]), 64), 'i64')]} if k == 'Endian' else {vi: []}
    return Enum(vi, pl, 'InstructionType')


def run_encode(mir, types, kind, opc, nops, timeout):
    """all paths of assembler::encode for a concrete table entry and `nops` symbolic operands"""
    eng = mirsym.Engine(mir, types, timeout); f = mir.funcs['encode']
    st = mirsym.State(); fr = mirsym.Frame(f); fr.tag = 'top'; st.frames.append(fr)
    ops = []
    vals = []
    for i in range(nops):
        d = BitVec(f'op{i}_d', 64); a = BitVec(f'op{i}_a', 64); b = BitVec(f'op{i}_b', 64)
        ops.append((d, a, b)); st.pc.append(ULT(d, 3))      # Operand::Nil is never produced by the parser (pattern-matching filler only)
        vals.append(Enum(d, {0: [V(a, 'i64')], 1: [V(a, 'i64')], 2: [V(a, 'i64'), V(b, 'i64')], 3: []}, 'Operand'))
    fr.locals['__ops'] = Agg(vals, kind='array')
    fr.locals[f.params[0][0]] = kind_enum(types, kind); fr.locals[f.params[1][0]] = V(BitVecVal(opc, 8), 'u8'); fr.locals[f.params[2][0]] = Ref(fr, '__ops', [])
    paths = eng.explore(st)
    return eng, ops, paths


def insn_fields(v):
    """fields of an ebpf::Insn aggregate as 64-bit signed-extended terms"""
    opc, dst, src, off, imm = [x.t for x in v.f]
    return dict(opc=opc, dst=ZeroExt(56, dst), src=ZeroExt(56, src), off=SignExt(48, off), imm=SignExt(32, imm))
