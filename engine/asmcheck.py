"""Assembler / disassembler obligations (C13, C14, C15, C16): symbolic execution of the MIR of assembler::{encode, insn,
operands_tuple}, of the numeric-literal closures of asm_parser and of disassembler::to_insn_vec, with format! decoded
structurally (template bytes + argument list).  The combine grammar itself (which characters tokenise into which
operands) is outside every solver front end available here and is stated as an assumption."""
import re, json
from z3 import (simplify, BitVec, BitVecVal, BoolVal, Int, IntVal, Int2BV, BV2Int, And, Or, Not, If, Implies, ULT, ULE, UGT, UGE, Extract, ZeroExt, SignExt, Concat, Select,
                Array, BitVecSort, simplify, is_true, is_false, is_bv_value)
import common, mirsym, spec, obl
from mirsym import V, Agg, Enum, Slice, Opaque, Ptr, Ref, Str, Closure, Unsupported
from obl import mval

# ------------------------------------------------------------------------------------------ expected mnemonic table (from the statement)
def expected_table():
    T = {}
    alu = {'add': 0x00, 'sub': 0x10, 'mul': 0x20, 'div': 0x30, 'or': 0x40, 'and': 0x50, 'lsh': 0x60, 'rsh': 0x70, 'mod': 0x90, 'xor': 0xa0, 'mov': 0xb0, 'arsh': 0xc0}
    for n, o in alu.items():
        T[n] = ('AluBinary', 0x07 | o); T[n + '64'] = ('AluBinary', 0x07 | o); T[n + '32'] = ('AluBinary', 0x04 | o)
    T['neg'] = ('AluUnary', 0x87); T['neg64'] = ('AluUnary', 0x87); T['neg32'] = ('AluUnary', 0x84)
    for sfx, sz in (('w', 0x00), ('h', 0x08), ('b', 0x10), ('dw', 0x18)):
        T['ldabs' + sfx] = ('LoadAbs', 0x20 | sz); T['ldind' + sfx] = ('LoadInd', 0x40 | sz); T['ldx' + sfx] = ('LoadReg', 0x61 | sz)
        T['st' + sfx] = ('StoreImm', 0x62 | sz); T['stx' + sfx] = ('StoreReg', 0x63 | sz)
    jc = {'jeq': 0x10, 'jgt': 0x20, 'jge': 0x30, 'jset': 0x40, 'jne': 0x50, 'jsgt': 0x60, 'jsge': 0x70, 'jlt': 0xa0, 'jle': 0xb0, 'jslt': 0xc0, 'jsle': 0xd0}
    for n, o in jc.items(): T[n] = ('JumpConditional', 0x05 | o); T[n + '32'] = ('JumpConditional', 0x06 | o)
    for sz in (16, 32, 64): T[f'be{sz}'] = (f'Endian({sz})', 0xdc); T[f'le{sz}'] = (f'Endian({sz})', 0xd4)
    T['exit'] = ('NoOperand', 0x95); T['ja'] = ('JumpUnconditional', 0x05); T['call'] = ('Call', 0x85); T['callx'] = ('Callx', 0x85); T['lddw'] = ('LoadImm', 0x18)
    return T


KINDS = ['AluBinary', 'AluUnary', 'LoadImm', 'LoadAbs', 'LoadInd', 'LoadReg', 'StoreImm', 'StoreReg', 'JumpUnconditional', 'JumpConditional', 'Call', 'Callx', 'Endian', 'NoOperand']


def in_rng(x, lo, hi): return And(x >= lo, x < hi)      # signed 64-bit


def expected_encode(kind, opc, ops):
    """documented result of encode for an operand list `ops` (list of (disc, a, b) with a, b 64-bit): list of
    (condition, fields dict) alternatives; anything else must be an error.  Operand discriminants: 0 Register, 1 Integer, 2 Memory, 3 Nil"""
    REG, INT, MEM = 0, 1, 2
    def sh(*want): return And(*[o[0] == w for o, w in zip(ops, want)]) if len(ops) == len(want) else BoolVal(False)
    Z = BitVecVal(0, 64); alts = []
    k = kind.split('(')[0]
    if k == 'AluBinary':
        alts.append((sh(REG, REG), dict(opc=opc | 0x08, dst=ops[0][1], src=ops[1][1], off=Z, imm=Z) if len(ops) == 2 else None))
        alts.append((sh(REG, INT), dict(opc=opc, dst=ops[0][1], src=Z, off=Z, imm=ops[1][1]) if len(ops) == 2 else None))
    elif k == 'AluUnary': alts.append((sh(REG), dict(opc=opc, dst=ops[0][1], src=Z, off=Z, imm=Z) if len(ops) == 1 else None))
    elif k == 'LoadAbs': alts.append((sh(INT), dict(opc=opc, dst=Z, src=Z, off=Z, imm=ops[0][1]) if len(ops) == 1 else None))
    elif k == 'LoadInd': alts.append((sh(REG, INT), dict(opc=opc, dst=Z, src=ops[0][1], off=Z, imm=ops[1][1]) if len(ops) == 2 else None))
    elif k == 'LoadReg': alts.append((sh(REG, MEM), dict(opc=opc, dst=ops[0][1], src=ops[1][1], off=ops[1][2], imm=Z) if len(ops) == 2 else None))
    elif k == 'StoreReg': alts.append((sh(MEM, REG), dict(opc=opc, dst=ops[0][1], src=ops[1][1], off=ops[0][2], imm=Z) if len(ops) == 2 else None))
    elif k == 'StoreImm': alts.append((sh(MEM, INT), dict(opc=opc, dst=ops[0][1], src=Z, off=ops[0][2], imm=ops[1][1]) if len(ops) == 2 else None))
    elif k == 'NoOperand': alts.append((sh(), dict(opc=opc, dst=Z, src=Z, off=Z, imm=Z) if len(ops) == 0 else None))
    elif k == 'JumpUnconditional': alts.append((sh(INT), dict(opc=opc, dst=Z, src=Z, off=ops[0][1], imm=Z) if len(ops) == 1 else None))
    elif k == 'JumpConditional':
        alts.append((sh(REG, REG, INT), dict(opc=opc | 0x08, dst=ops[0][1], src=ops[1][1], off=ops[2][1], imm=Z) if len(ops) == 3 else None))
        alts.append((sh(REG, INT, INT), dict(opc=opc, dst=ops[0][1], src=Z, off=ops[2][1], imm=ops[1][1]) if len(ops) == 3 else None))
    elif k == 'Call': alts.append((sh(INT), dict(opc=opc, dst=Z, src=Z, off=Z, imm=ops[0][1]) if len(ops) == 1 else None))
    elif k == 'Callx': alts.append((sh(INT), dict(opc=opc, dst=Z, src=BitVecVal(1, 64), off=Z, imm=ops[0][1]) if len(ops) == 1 else None))
    elif k == 'Endian':
        sz = int(kind[7:-1]); alts.append((sh(REG), dict(opc=opc, dst=ops[0][1], src=Z, off=Z, imm=BitVecVal(sz, 64)) if len(ops) == 1 else None))
    elif k == 'LoadImm':
        alts.append((sh(REG, INT), dict(opc=opc, dst=ops[0][1], src=Z, off=Z, imm=SignExt(32, Extract(31, 0, ops[1][1])), hi=Extract(63, 32, ops[1][1])) if len(ops) == 2 else None))
    out = []
    for c, f in alts:
        if f is None: continue
        rng = And(in_rng(f['dst'], 0, 16), in_rng(f['src'], 0, 16), in_rng(f['off'], -32768, 32768), in_rng(f['imm'], -(1 << 31), 1 << 31))
        out.append((And(c, rng), f))
    return out


def kind_enum(types, kind):
    k = kind.split('(')[0]; vi = types.variant_index(k, 'InstructionType')
    pl = {vi: [V(BitVecVal(int(kind[7:-1]), 64), 'i64')]} if k == 'Endian' else {vi: []}
    return Enum(vi, pl, 'InstructionType')


def run_encode(mir, types, kind, opc, nops, timeout):
    """all paths of assembler::encode for a concrete table entry and `nops` symbolic operands"""
    eng = mirsym.Engine(mir, types, timeout); f = mir.funcs['encode']
    st = mirsym.State(); fr = mirsym.Frame(f); fr.tag = 'top'; st.frames.append(fr)
    ops = []
    vals = []
    for i in range(nops):
        d = BitVec(f'op{i}_d', 64); a = BitVec(f'op{i}_a', 64); b = BitVec(f'op{i}_b', 64)
        ops.append((d, a, b)); st.pc.append(ULT(d, 3))      # Operand::Nil is never produced by the parser (pattern-matching filler only)
        vals.append(Enum(d, {0: [V(a, 'i64')], 1: [V(a, 'i64')], 2: [V(a, 'i64'), V(b, 'i64')], 3: []}, 'Operand'))
    fr.locals['__ops'] = Agg(vals, kind='array')
    fr.locals[f.params[0][0]] = kind_enum(types, kind); fr.locals[f.params[1][0]] = V(BitVecVal(opc, 8), 'u8'); fr.locals[f.params[2][0]] = Ref(fr, '__ops', [])
    paths = eng.explore(st)
    return eng, ops, paths


def insn_fields(v):
    """fields of an ebpf::Insn aggregate as 64-bit signed-extended terms"""
    opc, dst, src, off, imm = [x.t for x in v.f]
    return dict(opc=opc, dst=ZeroExt(56, dst), src=ZeroExt(56, src), off=SignExt(48, off), imm=SignExt(32, imm))


# ------------------------------------------------------------------------------------------ disassembler
def decode_template(tpl, args):
    """format template bytes (rustc's compact encoding) + argument list -> tokens: ('lit', text) | ('arg', trait, alternate, value)
    layout seen in this toolchain: 0x00 end; 0x01..0x7f literal of that many bytes; 0xc0 next argument, default options;
    0xc1 + 4 option bytes (LE u32, bit 23 = '#' alternate) next argument.  Anything else -> Unsupported (inconclusive)."""
    b = [ord(ch) for ch in tpl]; i = 0; toks = []; ai = 0
    while i < len(b):
        c = b[i]
        if c == 0: break
        if c < 0x80:
            toks.append(('lit', ''.join(chr(x) for x in b[i + 1:i + 1 + c]))); i += 1 + c
        elif c == 0xc0:
            if ai >= len(args): raise Unsupported('format template: more placeholders than arguments')
            toks.append(('arg', args[ai][0], False, args[ai][1])); ai += 1; i += 1
        elif c == 0xc1:
            opt = b[i + 1] | (b[i + 2] << 8) | (b[i + 3] << 16) | (b[i + 4] << 24)
            known = 0x60800020
            if opt & ~0x00800000 != known & ~0x00800000: raise Unsupported(f'format template: unknown placeholder options {opt:#x}')
            toks.append(('arg', args[ai][0], bool(opt & 0x00800000), args[ai][1])); ai += 1; i += 5
        else: raise Unsupported(f'format template: unknown control byte {c:#x}')
    if ai != len(args): raise Unsupported('format template: unused arguments')
    return toks


def string_tokens(v):
    """tokens of a String value built by format!/to_string, in-place appends (push_str, push, +=) and nesting (a String displayed inside another format!)"""
    if isinstance(v, Str): return [('lit', v.s)] if v.s else []
    if isinstance(v, Opaque) and v.tag == 'strcat': return [t for p in v.args for t in string_tokens(p)]
    if isinstance(v, Opaque) and v.tag == 'char':
        c = v.args[0]; cv = simplify(c.t) if isinstance(c, V) else None
        if cv is None or not hasattr(cv, 'as_long'): raise Unsupported('symbolic character in a string')
        return [('lit', chr(cv.as_long()))]
    if isinstance(v, Opaque) and v.tag == 'string' and v.args:
        a = v.args[0]
        if isinstance(a, Str): return [('lit', a.s)]
        if isinstance(a, Opaque) and a.tag == 'fmtargs':
            tpl, lst = a.args
            if tpl is None or lst is None: raise Unsupported('format arguments not captured')
            out = []
            for t in decode_template(tpl.s, lst):
                val = t[3] if t[0] == 'arg' else None
                if t[0] == 'arg' and t[1] == 'new_display' and (isinstance(val, Str) or (isinstance(val, Opaque) and val.tag in ('string', 'strcat', 'char'))): out += string_tokens(val)     # {} of a string: its text
                elif t[0] == 'arg' and t[1] == 'new_display' and isinstance(val, V) and val.ty == 'char': out += string_tokens(Opaque('char', (val,)))
                else: out.append(t)
            return out
    raise Unsupported(f'string value {v}')


def arg_value(trait, alt, val):
    """numeric value the assembler's integer/register grammar reads back from a printed argument (64-bit term), or a str for names"""
    if isinstance(val, Str): return val.s
    if not isinstance(val, V): raise Unsupported(f'format argument {val}')
    w, sg = mirsym.bvw(val.ty)
    if trait == 'new_display':
        if sg: return ('signed-decimal', SignExt(64 - w, val.t) if w < 64 else val.t)
        return ZeroExt(64 - w, val.t) if w < 64 else val.t
    if trait == 'new_lower_hex':
        if not alt: raise Unsupported('hex argument without 0x prefix')
        return ZeroExt(64 - w, val.t) if w < 64 else val.t          # {:#x} prints the two's complement bits at the operand width
    raise Unsupported('format trait ' + trait)


class TextDefect(Exception):
    """the printed text is decodable but structurally cannot denote the fields (e.g. radix prefix and rendering disagree)"""


def parse_operand_text(toks):
    """documented operand grammar applied to a token sequence: returns (mnemonic parts, [operands]) with operands as
    ('reg', v) | ('int', v) | ('mem', reg, off); sign characters apply by (wrapping) negation"""
    items = []
    for t in toks:
        if t[0] == 'lit': items += list(t[1])
        else: items.append(('A',) + t[1:])
    i = 0; n = len(items); mn = []
    while i < n and items[i] != ' ':
        it = items[i]
        mn.append(it if isinstance(it, str) else arg_value(*it[1:])); i += 1
    ops = []
    def num(j):
        sign = 1
        if j < n and items[j] in ('+', '-'): sign = -1 if items[j] == '-' else 1; j += 1
        if j + 2 < n and items[j] == '0' and items[j + 1] == 'x' and not isinstance(items[j + 2], str):
            tr = items[j + 2][1]
            raise TextDefect('a literal "0x" prefix is followed by an argument rendered with ' + ('Display (decimal digits)' if tr == 'new_display' else tr) + ': the grammar reads those digits in radix 16')
        if j >= n or isinstance(items[j], str): raise Unsupported('operand text: number expected')
        v = arg_value(*items[j][1:])
        if isinstance(v, tuple): v = v[1]
        return (-v if sign < 0 else v), j + 1
    while i < n:
        while i < n and items[i] == ' ': i += 1
        if i >= n: break
        it = items[i]
        if it == 'r':
            v = arg_value(*items[i + 1][1:]); ops.append(('reg', v)); i += 2
        elif it == '[':
            if items[i + 1] != 'r': raise Unsupported('operand text: [ not followed by a register')
            rg = arg_value(*items[i + 2][1:]); j = i + 3
            off = BitVecVal(0, 64)
            if items[j] != ']': off, j = num(j)
            if items[j] != ']': raise Unsupported('operand text: ] expected')
            ops.append(('mem', rg, off)); i = j + 1
        else:
            v, i = num(i); ops.append(('int', v))
        if i < n:
            if items[i] != ',': raise Unsupported(f'operand text: , expected, found {items[i]!r}')
            i += 1
    return mn, ops


class Disasm:
    """one iteration of disassembler::to_insn_vec from an arbitrary index (MIR), HLInsn captured at Vec::push"""
    def __init__(self, mir, types, timeout):
        self.mir = mir; self.types = types; self.f = mir.funcs['disassembler::to_insn_vec']
        self.eng = mirsym.Engine(mir, types, timeout); self.eng.summarize = {'get_insn'}
        self.prog_base, self.prog_len = BitVec('prog_base', 64), BitVec('prog_len', 64); self.M0 = Array('M0', BitVecSort(64), BitVecSort(8))
        heads = self.f.loop_heads()
        if len(heads) != 1: raise Unsupported(f'to_insn_vec: loops {heads}')
        self.head = heads[0]; self.ip = self.f.local_of('insn_ptr')
        e = self.eng
        e.add_stub(r'Vec::push$', lambda en, st, fr, callee, args, R: (st.events.append(('push', args[1])), R(Agg([], '()')))[1])
        e.add_stub(r'^log::', lambda en, st, fr, callee, args, R: R(V(BitVecVal(0, 64), 'usize')) if 'max_level' in callee else R(Agg([], '()')))
        e.add_stub(r'Level as PartialOrd', lambda en, st, fr, callee, args, R: R(V(BoolVal(False), 'bool')))      # logging disabled: formatting a warning is not the subject
        self._head = None
    def base(self):
        from z3 import BVAddNoOverflow, URem
        return [BVAddNoOverflow(self.prog_base, self.prog_len, False), self.prog_base != 0, URem(self.prog_len, 8) == 0, self.prog_len != 0, ULE(self.prog_len, 1 << 40)]
    def head_state(self):
        if self._head is None:
            st = mirsym.State(); st.mem = self.M0; st.pc = list(self.base())
            fr = mirsym.Frame(self.f); fr.tag = 'top'; st.frames.append(fr)
            fr.locals[self.f.params[0][0]] = Slice(self.prog_base, self.prog_len)
            k = (self.f.name, self.head); st.visits[k] = 1
            ps = [p for p in self.eng.explore(st, cuts={k}) if p.kind == 'cut']
            if not ps: raise Unsupported('to_insn_vec: loop head not reached')
            self._head = ps[0].st
        return self._head
    def step(self, opc):
        st = self.head_state().fork(); fr = st.frames[0]; self.eng.memo.clear()
        st.pc = list(self.base()); st.log = []; st.events = []; st.visits = {}
        P = type('P', (), {})(); P.pc = BitVec('pc', 64)
        for l in self.f.assigned_in(self.f.loop_body(self.head)): fr.locals.pop(l, None)
        fr.locals[self.ip] = V(P.pc, 'usize')
        resl = self.f.local_of('res')
        fr.locals[resl] = Slice(BitVec('res.ptr', 64), BitVec('res.len', 64), 'u8')
        P.opc = BitVecVal(opc, 8); P.regbyte = BitVec('regbyte', 8); P.off = BitVec('off', 16); P.imm = BitVec('imm', 32)
        P.nopc = BitVec('nopc', 8); P.nregbyte = BitVec('nregbyte', 8); P.noff = BitVec('noff', 16); P.next_imm = BitVec('next_imm', 32)
        a0 = self.prog_base + 8 * P.pc; bts = []
        for t in (P.opc, P.regbyte, P.off, P.imm, P.nopc, P.nregbyte, P.noff, P.next_imm):
            for i in range(t.size() // 8): bts.append(Extract(8 * i + 7, 8 * i, t) if t.size() > 8 else t)
        st.pc += [Select(self.M0, a0 + i) == b for i, b in enumerate(bts)]
        st.aux['overlay'] = mirsym.Engine.make_overlay(a0, bts)
        P.dst = ZeroExt(60, Extract(3, 0, P.regbyte)); P.src = ZeroExt(60, Extract(7, 4, P.regbyte)); P.n = self.prog_len / 8
        k, info = spec.classify(opc) or (None, None)
        st.pc += [ULT(P.pc, P.n)]
        if k == 'lddw': st.pc.append(ULT(P.pc + 1, P.n))            # wide loads are followed by their second half (statement's premise)
        if k == 'call': st.pc.append(ULE(P.src, 1))                 # call kinds 0/1 (statement's premise)
        paths = self.eng.explore(st, cuts={(self.f.name, self.head)})
        return P, paths


def expected_name(opc):
    k, i = spec.classify(opc)
    sz = {1: 'b', 2: 'h', 4: 'w', 8: 'dw'}
    if k == 'alu': return f"{i['op']}{i['w']}"
    if k == 'endian': return 'be' if i['be'] else 'le'
    if k == 'jcond': return i['op'] + ('32' if i['w'] == 32 else '')
    if k == 'ldabs': return 'ldabs' + sz[i['size']]
    if k == 'ldind': return 'ldind' + sz[i['size']]
    if k == 'ldx': return 'ldx' + sz[i['size']]
    if k == 'st': return 'st' + sz[i['size']]
    if k == 'stx': return 'stx' + sz[i['size']]
    if k == 'xadd': return 'stxxadd' + sz[i['size']]
    return {'lddw': 'lddw', 'ja': 'ja', 'call': 'call', 'exit': 'exit', 'tail_call': 'tail_call'}[k]


def expected_operands(opc, P):
    """operands the statement says the text renders, from the encoded fields (64-bit terms; immediates as the assembler
    would read the printed hexadecimal: the two's complement bits, zero-extended)"""
    k, i = spec.classify(opc)
    dst, src = P.dst, P.src; off = SignExt(48, P.off); immz = ZeroExt(32, P.imm)
    if k == 'alu':
        if i['op'] == 'neg': return [('reg', dst)]
        return [('reg', dst), ('reg', src)] if i['x'] else [('reg', dst), ('int', immz)]
    if k == 'endian': return [('reg', dst)]
    if k == 'lddw': return [('reg', dst), ('int', Concat(P.next_imm, P.imm))]
    if k == 'ldabs': return [('int', immz)]
    if k == 'ldind': return [('reg', src), ('int', immz)]
    if k == 'ldx': return [('reg', dst), ('mem', src, off)]
    if k == 'st': return [('mem', dst, off), ('int', immz)]
    if k in ('stx', 'xadd'): return [('mem', dst, off), ('reg', src)]
    if k == 'ja': return [('int', off)]
    if k == 'jcond': return [('reg', dst), ('reg', src), ('int', off)] if i['x'] else [('reg', dst), ('int', immz), ('int', off)]
    if k == 'call': return [('int', immz)]
    return []
