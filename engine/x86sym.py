"""x86sym -- symbolic execution (z3) of exactly the x86-64 subset that src/jit.rs can emit.
Anything outside the table raises Undecodable (the calling check reports exit 2, never a verdict)."""
from z3 import (BitVec, BitVecVal, BoolVal, Bool, If, And, Or, Not, Xor, Select, Store, Extract, Concat, ZeroExt, SignExt,
                LShR, UDiv, URem, ULT, ULE, UGT, UGE, simplify, is_true, is_false, is_bv_value, Solver, unsat, sat, unknown,
                RotateLeft, Array, BitVecSort)

REGS = ['rax', 'rcx', 'rdx', 'rbx', 'rsp', 'rbp', 'rsi', 'rdi', 'r8', 'r9', 'r10', 'r11', 'r12', 'r13', 'r14', 'r15']
# eBPF r0..r10 -> x86 register (the documented map of src/jit.rs:57-72; the check validates it against behaviour)
EBPF_MAP = ['rax', 'rdi', 'rsi', 'rdx', 'r9', 'r8', 'rbx', 'r13', 'r14', 'r15', 'rbp']
CALLER_SAVED = ['rax', 'rcx', 'rdx', 'rsi', 'rdi', 'r8', 'r9', 'r10', 'r11']


class Undecodable(Exception):
    pass


def split_addr(a):
    a = simplify(a)
    if is_bv_value(a): return (0, a.as_long())
    if a.num_args() >= 2 and a.decl().name() == 'bvadd' and is_bv_value(a.arg(0)):
        c = a.arg(0).as_long(); rest = simplify(a - a.arg(0)); return (rest.get_id(), c)
    return (a.get_id(), 0)


class SymMem:
    """z3 byte array for data memory, a syntactic cache for same-base addresses, and -- separately -- the native stack:
    bytes at addresses of the form (entry RSP + constant) live in a Python map keyed by the constant (push/pop/call/ret
    slots and RSP/RBP-relative accesses). Accesses through any other address term go to the array and carry the
    obligation that they do not point into the native stack window (recorded by the executor)."""
    def __init__(self, arr, cache=None, stack_rid=None, stk=None):
        self.arr = arr; self.cache = dict(cache or {}); self.stack_rid = stack_rid; self.stk = dict(stk or {})
    def copy(self): return SymMem(self.arr, self.cache, self.stack_rid, self.stk)
    def is_stack(self, addr):
        return self.stack_rid is not None and split_addr(addr)[0] == self.stack_rid
    def load(self, addr, n):
        rid, c = split_addr(addr); bs = []
        if rid == self.stack_rid and rid is not None:
            for i in range(n):
                b = self.stk.get((c + i) % (1 << 64))
                bs.append(b if b is not None else Select(self.arr, addr + i))
        else:
            for i in range(n):
                b = self.cache.get((rid, (c + i) % (1 << 64)))
                bs.append(b if b is not None else Select(self.arr, addr + i))
        return bs[0] if n == 1 else simplify(Concat(*reversed(bs)))
    def store(self, addr, val, n):
        rid, c = split_addr(addr)
        if rid == self.stack_rid and rid is not None:
            for i in range(n): self.stk[(c + i) % (1 << 64)] = simplify(Extract(8 * i + 7, 8 * i, val))
            return
        # bytes cached under another symbolic base may alias this store: drop them (the array stays authoritative)
        self.cache = {k: v for k, v in self.cache.items() if k[0] == rid}
        for i in range(n):
            b = Extract(8 * i + 7, 8 * i, val)
            self.arr = Store(self.arr, addr + i, b); self.cache[(rid, (c + i) % (1 << 64))] = b


class X86State:
    def __init__(self):
        self.r = {}; self.fl = {'cf': None, 'zf': None, 'sf': None, 'of': None}; self.mem = None
        self.ip = 0; self.pc = []; self.log = []; self.events = []; self.steps = 0; self.obligations = []; self.writes = ()
    def fork(self):
        s = X86State(); s.r = dict(self.r); s.fl = dict(self.fl); s.mem = self.mem.copy(); s.ip = self.ip
        s.pc = list(self.pc); s.log = list(self.log); s.events = list(self.events); s.steps = self.steps
        s.obligations = list(self.obligations); s.writes = self.writes
        return s


class Insn:
    __slots__ = ('ip', 'len', 'op', 'w', 'reg', 'rm', 'mod', 'disp', 'imm', 'lock', 'ext', 'text')
    def __init__(self): self.lock = False; self.ext = None; self.disp = 0; self.imm = None; self.mod = 3; self.reg = 0; self.rm = 0; self.text = ''


def decode(code, ip):
    """decode one instruction at offset ip"""
    i = ip; n = len(code); I = Insn(); I.ip = ip
    opsize16 = False; rex = 0
    def need(k):
        if i + k > n: raise Undecodable(f'truncated instruction at {ip:#x}')
    while True:
        need(1); b = code[i]
        if b == 0x66: opsize16 = True; i += 1
        elif b == 0xf0: I.lock = True; i += 1
        else: break
    if 0x40 <= code[i] <= 0x4f: rex = code[i]; i += 1
    rw, rr, rx, rb = (rex >> 3) & 1, (rex >> 2) & 1, (rex >> 1) & 1, rex & 1
    if rx: raise Undecodable(f'REX.X set at {ip:#x}')
    need(1); op = code[i]; i += 1
    I.w = 64 if rw else (16 if opsize16 else 32)
    def modrm():
        nonlocal i
        need(1); m = code[i]; i += 1
        I.mod = m >> 6; I.reg = ((m >> 3) & 7) | (rr << 3); rmlo = m & 7; I.rm = rmlo | (rb << 3)
        if I.mod != 3:
            if rmlo == 4: raise Undecodable(f'SIB byte at {ip:#x} (rsp/r12 as base is never emitted)')
            if I.mod == 0:
                if rmlo == 5: raise Undecodable(f'rip-relative operand at {ip:#x}')
                I.disp = 0
            elif I.mod == 1:
                need(1); d = code[i]; i += 1; I.disp = d - 256 if d >= 128 else d
            else:
                need(4); d = int.from_bytes(code[i:i + 4], 'little'); i += 4; I.disp = d - (1 << 32) if d >> 31 else d
    def imm(k, signed=True):
        nonlocal i
        need(k); v = int.from_bytes(code[i:i + k], 'little'); i += k
        if signed and v >> (8 * k - 1): v -= 1 << (8 * k)
        return v
    if 0x50 <= op <= 0x57: I.op = 'push'; I.rm = (op & 7) | (rb << 3)
    elif 0x58 <= op <= 0x5f: I.op = 'pop'; I.rm = (op & 7) | (rb << 3)
    elif op in (0x01, 0x09, 0x21, 0x29, 0x31, 0x39, 0x85, 0x89):
        I.op = {0x01: 'add', 0x09: 'or', 0x21: 'and', 0x29: 'sub', 0x31: 'xor', 0x39: 'cmp', 0x85: 'test', 0x89: 'mov'}[op] + '_mr'; modrm()
    elif op == 0x88: I.op = 'mov_mr'; I.w = 8; modrm()
    elif op == 0x8b: I.op = 'mov_rm'; modrm()
    elif op == 0x81:
        modrm(); I.op = {0: 'add', 1: 'or', 4: 'and', 5: 'sub', 6: 'xor', 7: 'cmp'}.get(I.reg & 7)
        if I.op is None: raise Undecodable(f'81 /{I.reg & 7} at {ip:#x}')
        I.op += '_mi'; I.imm = imm(2 if I.w == 16 else 4)
    elif op == 0xc7:
        modrm()
        if I.reg & 7: raise Undecodable(f'c7 /{I.reg & 7} at {ip:#x}')
        I.op = 'mov_mi'; I.imm = imm(2 if I.w == 16 else 4)
    elif op == 0xc6:
        modrm()
        if I.reg & 7: raise Undecodable(f'c6 /{I.reg & 7} at {ip:#x}')
        I.op = 'mov_mi'; I.w = 8; I.imm = imm(1)
    elif 0xb8 <= op <= 0xbf:
        I.op = 'movabs'; I.rm = (op & 7) | (rb << 3)
        if not rw: raise Undecodable(f'mov r32, imm32 (b8+r without REX.W) at {ip:#x}')
        I.imm = imm(8, signed=False)
    elif op == 0xf7:
        modrm(); e = I.reg & 7
        if e == 0: I.op = 'test_mi'; I.imm = imm(2 if I.w == 16 else 4)
        elif e == 3: I.op = 'neg'
        elif e == 4: I.op = 'mul'
        elif e == 6: I.op = 'div'
        else: raise Undecodable(f'f7 /{e} at {ip:#x}')
    elif op == 0xc1:
        modrm(); e = I.reg & 7; I.op = {0: 'rol', 4: 'shl', 5: 'shr', 7: 'sar'}.get(e)
        if I.op is None: raise Undecodable(f'c1 /{e} at {ip:#x}')
        I.op += '_i'; I.imm = imm(1, signed=False)
    elif op == 0xd3:
        modrm(); e = I.reg & 7; I.op = {4: 'shl', 5: 'shr', 7: 'sar'}.get(e)
        if I.op is None: raise Undecodable(f'd3 /{e} at {ip:#x}')
        I.op += '_cl'
    elif op == 0x0f:
        need(1); op2 = code[i]; i += 1
        if op2 in (0xb6, 0xb7): I.op = 'movzx8' if op2 == 0xb6 else 'movzx16'; modrm()
        elif 0xc8 <= op2 <= 0xcf: I.op = 'bswap'; I.rm = (op2 & 7) | (rb << 3)
        elif 0x80 <= op2 <= 0x8f: I.op = 'jcc'; I.ext = op2 & 0xf; I.imm = imm(4)
        else: raise Undecodable(f'0f {op2:02x} at {ip:#x}')
    elif op == 0xe9: I.op = 'jmp'; I.imm = imm(4)
    elif op == 0xe8: I.op = 'call'; I.imm = imm(4)
    elif op == 0xff:
        modrm()
        if (I.reg & 7) == 2 and I.mod == 3: I.op = 'call_r'
        else: raise Undecodable(f'ff /{I.reg & 7} at {ip:#x}')
    elif op == 0xc3: I.op = 'ret'
    else: raise Undecodable(f'opcode {op:02x} at {ip:#x}')
    if I.lock and not (I.op == 'add_mr' and I.mod != 3): raise Undecodable(f'lock prefix on {I.op} at {ip:#x}')
    I.len = i - ip
    return I


def cc(fl, code):
    cf, zf, sf, of = fl['cf'], fl['zf'], fl['sf'], fl['of']
    def need(*xs):
        if any(x is None for x in xs): raise Undecodable('condition code reads an undefined flag')
    base = code >> 1
    if base == 1: need(cf); r = cf                          # b / ae
    elif base == 2: need(zf); r = zf                        # e / ne
    elif base == 3: need(cf, zf); r = Or(cf, zf)            # be / a
    elif base == 6: need(sf, of); r = Xor(sf, of)           # l / ge
    elif base == 7: need(zf, sf, of); r = Or(zf, Xor(sf, of))   # le / g
    elif base == 4: need(sf); r = sf                        # s / ns
    elif base == 0: need(of); r = of
    else: raise Undecodable(f'condition code {code:#x}')
    return Not(r) if code & 1 else r


class X86:
    def __init__(self, code, timeout_ms=20000):
        self.code = bytes(code); self.solver = Solver(); self.solver.set('timeout', timeout_ms)
        self.dec = {}; self.max_steps = 4000; self.stats = {'insns': 0, 'sat_calls': 0}
        self.hcall = None        # uninterpreted helper-call function (target, a1..a5) -> result
        self.fresh = 0
        self.ops_seen = set(); self.rsp0 = None
    def insn_at(self, ip):
        if ip not in self.dec: self.dec[ip] = decode(self.code, ip)
        return self.dec[ip]
    def feasible(self, st, c):
        c = simplify(c)
        if is_true(c): return True
        if is_false(c): return False
        self.stats['sat_calls'] += 1
        self.solver.push(); self.solver.add(*st.pc); self.solver.add(c); r = self.solver.check(); self.solver.pop()
        return r != unsat
    # ---- operand helpers
    def getr(self, st, idx, w):
        v = st.r[REGS[idx]]
        return v if w == 64 else Extract(w - 1, 0, v)
    def setr(self, st, idx, val, w):
        if w == 64: st.r[REGS[idx]] = val
        elif w == 32: st.r[REGS[idx]] = ZeroExt(32, val)           # 32-bit writes zero the upper half
        else: st.r[REGS[idx]] = Concat(Extract(63, w, st.r[REGS[idx]]), val)
    def ea(self, st, I): return st.r[REGS[I.rm]] + BitVecVal(I.disp, 64)
    def rd_rm(self, st, I, w, kind='read'):
        if I.mod == 3: return self.getr(st, I.rm, w)
        a = self.ea(st, I); st.log.append((kind, a, w // 8)); self.note_access(st, a, w // 8); return st.mem.load(a, w // 8)
    def wr_rm(self, st, I, val, w, kind='write'):
        if I.mod == 3: self.setr(st, I.rm, val, w)
        else:
            a = self.ea(st, I); st.log.append((kind, a, w // 8)); self.note_access(st, a, w // 8); st.mem.store(a, val, w // 8)
            st.writes = st.writes + ((a, val, w // 8),)
    def note_access(self, st, a, n):
        if st.mem.stack_rid is not None and not st.mem.is_stack(a) and self.rsp0 is not None:
            st.obligations.append(('data-access-outside-native-stack', Or(ULE(a + n, self.rsp0 - 8192), UGE(a, self.rsp0 + 4096)), st.ip))
    def arith_flags(self, st, op, a, b, r, w):
        msb = lambda x: Extract(w - 1, w - 1, x) == 1
        st.fl['zf'] = r == 0; st.fl['sf'] = msb(r)
        if op in ('add',):
            st.fl['cf'] = ULT(r, a); st.fl['of'] = And(msb(a) == msb(b), msb(r) != msb(a))
        elif op in ('sub', 'cmp'):
            st.fl['cf'] = ULT(a, b); st.fl['of'] = And(msb(a) != msb(b), msb(r) != msb(a))
        else:
            st.fl['cf'] = BoolVal(False); st.fl['of'] = BoolVal(False)
    def undef_flags(self, st):
        st.fl = {'cf': None, 'zf': None, 'sf': None, 'of': None}
    # ---- one instruction; returns list of successor states (st itself may be reused), or [] if the path stopped
    def step(self, st, stop):
        I = self.insn_at(st.ip); self.stats['insns'] += 1; st.steps += 1; self.ops_seen.add(I.op)
        if st.steps > self.max_steps: raise Undecodable('step budget exceeded (loop in generated code?)')
        nxt = st.ip + I.len; op = I.op; w = I.w
        if op == 'push':
            v = st.r[REGS[I.rm]]; st.r['rsp'] = st.r['rsp'] - 8; st.mem.store(st.r['rsp'], v, 8); st.log.append(('push', st.r['rsp'], 8))
        elif op == 'pop':
            v = st.mem.load(st.r['rsp'], 8); st.log.append(('pop', st.r['rsp'], 8)); st.r[REGS[I.rm]] = v; st.r['rsp'] = st.r['rsp'] + 8
        elif op.endswith('_mr') and op != 'mov_mr':
            o = op[:-3]; a = self.rd_rm(st, I, w, 'atomic-read' if I.lock else 'read'); b = self.getr(st, I.reg, w)
            r = {'add': a + b, 'or': a | b, 'and': a & b, 'sub': a - b, 'xor': a ^ b, 'cmp': a - b, 'test': a & b}[o]
            self.arith_flags(st, o, a, b, r, w)
            if o not in ('cmp', 'test'):
                self.wr_rm(st, I, r, w, 'atomic-write' if I.lock else 'write')
                if I.lock: st.events.append(('atomic_rmw', self.ea(st, I), w, b))
        elif op == 'mov_mr': self.wr_rm(st, I, self.getr(st, I.reg, w), w)
        elif op == 'mov_rm': self.setr(st, I.reg, self.rd_rm(st, I, w), w)
        elif op in ('movzx8', 'movzx16'):
            sw = 8 if op == 'movzx8' else 16
            v = self.rd_rm(st, I, sw); self.setr(st, I.reg, ZeroExt(w - sw, v), w)
        elif op.endswith('_mi') and op not in ('mov_mi',):
            o = op[:-3]; a = self.rd_rm(st, I, w); b = BitVecVal(I.imm, w)        # imm32 sign-extended to the operand size
            r = {'add': a + b, 'or': a | b, 'and': a & b, 'sub': a - b, 'xor': a ^ b, 'cmp': a - b, 'test': a & b}[o]
            self.arith_flags(st, o, a, b, r, w)
            if o not in ('cmp', 'test'): self.wr_rm(st, I, r, w)
        elif op == 'mov_mi': self.wr_rm(st, I, BitVecVal(I.imm, w), w)
        elif op == 'movabs': st.r[REGS[I.rm]] = BitVecVal(I.imm, 64)
        elif op == 'neg':
            a = self.rd_rm(st, I, w); r = -a; self.wr_rm(st, I, r, w); self.arith_flags(st, 'sub', BitVecVal(0, w), a, r, w)
        elif op == 'mul':
            if I.mod != 3: raise Undecodable('mul with memory operand')
            a = self.getr(st, 0, w); b = self.getr(st, I.rm, w)
            full = ZeroExt(w, a) * ZeroExt(w, b)
            self.setr(st, 0, Extract(w - 1, 0, full), w); self.setr(st, 2, Extract(2 * w - 1, w, full), w); self.undef_flags(st)
        elif op == 'div':
            if I.mod != 3: raise Undecodable('div with memory operand')
            hi = simplify(self.getr(st, 2, w))
            if not (is_bv_value(hi) and hi.as_long() == 0): raise Undecodable(f'div at {st.ip:#x} with a dividend high half that is not syntactically zero')
            a = self.getr(st, 0, w); b = self.getr(st, I.rm, w)
            st.obligations.append(('no-#DE', b != 0, st.ip))          # divide error if the divisor is zero
            if not self.feasible(st, b != 0): return []
            st.pc.append(simplify(b != 0))
            self.setr(st, 0, UDiv(a, b), w); self.setr(st, 2, URem(a, b), w); self.undef_flags(st)
        elif op in ('rol_i', 'shl_i', 'shr_i', 'sar_i', 'shl_cl', 'shr_cl', 'sar_cl'):
            a = self.rd_rm(st, I, w)
            mask = 63 if w == 64 else 31
            if op.endswith('_i'): cnt = BitVecVal(I.imm & mask, w)
            else:
                cl = Extract(7, 0, st.r['rcx']); cnt = ZeroExt(w - 8, cl) & mask
            o = op[:3]
            r = {'rol': RotateLeft(a, cnt), 'shl': a << cnt, 'shr': LShR(a, cnt), 'sar': a >> cnt}[o]
            self.wr_rm(st, I, r, w); self.undef_flags(st)
        elif op == 'bswap':
            a = self.getr(st, I.rm, w); nb = w // 8
            self.setr(st, I.rm, Concat(*[Extract(8 * k + 7, 8 * k, a) for k in range(nb)]), w)
        elif op == 'jmp': nxt = nxt + I.imm
        elif op == 'jcc':
            c = cc(st.fl, I.ext); tgt = nxt + I.imm
            t_ok = self.feasible(st, c); f_ok = self.feasible(st, Not(c)); out = []
            if t_ok and f_ok:
                s2 = st.fork(); s2.pc.append(simplify(c)); s2.ip = tgt; st.pc.append(simplify(Not(c))); st.ip = nxt; return [s2, st]
            if t_ok: st.pc.append(simplify(c)); st.ip = tgt; return [st]
            if f_ok: st.pc.append(simplify(Not(c))); st.ip = nxt; return [st]
            return []
        elif op == 'call':
            st.r['rsp'] = st.r['rsp'] - 8; st.mem.store(st.r['rsp'], BitVecVal(nxt, 64) + st.r.get('__base', BitVecVal(0, 64)), 8)
            st.log.append(('push', st.r['rsp'], 8)); st.events.append(('call_rel', nxt + I.imm, nxt)); nxt = nxt + I.imm
        elif op == 'call_r':
            tgt = st.r[REGS[I.rm]]
            a = [st.r[x] for x in ('rdi', 'rsi', 'rdx', 'rcx', 'r8')]
            st.events.append(('hcall', tgt, a, st.r['rsp']))
            res = self.hcall(tgt, *a) if self.hcall is not None else BitVec(f'hres!{self.fresh}', 64)
            for rg in CALLER_SAVED:
                self.fresh += 1; st.r[rg] = BitVec(f'clobber_{rg}!{self.fresh}', 64)
            st.r['rax'] = res; self.undef_flags(st)
        elif op == 'ret':
            ra = st.mem.load(st.r['rsp'], 8); st.log.append(('pop', st.r['rsp'], 8)); st.r['rsp'] = st.r['rsp'] + 8
            ra = simplify(ra)
            if is_bv_value(ra) and 0 <= ra.as_long() < len(self.code):
                st.ip = ra.as_long(); return [st]          # return to a code address pushed by a relative call
            st.events.append(('ret', ra)); st.ip = ('ret', ra); return [st]
        else: raise Undecodable('no semantics for ' + op)
        st.ip = nxt
        return [st]
    def run(self, st, stop_at):
        """run until ip is in stop_at (set of code offsets) or a `ret`; returns finished states (ip = offset or ('ret', addr))"""
        done = []; work = [st]
        while work:
            s = work.pop()
            while True:
                if isinstance(s.ip, tuple) or (s.ip in stop_at and s.steps > 0): done.append(s); break
                if not (0 <= s.ip < len(self.code)): s.ip = ('outside', s.ip); done.append(s); break
                succ = self.step(s, stop_at)
                if not succ: break
                if len(succ) > 1: work.extend(succ[1:])
                s = succ[0]
        return done


def fresh_state(tag='', mem=None):
    st = X86State()
    for r in REGS: st.r[r] = BitVec(f'x_{r}{tag}', 64)
    st.mem = SymMem(mem if mem is not None else Array('M0', BitVecSort(64), BitVecSort(8)), stack_rid=split_addr(st.r['rsp'])[0])
    return st
