"""Turning solver models into concrete whole-program runs against the real build (native driver), compared with the
concrete reference machine (ref.py).  A candidate is reported only if the difference reproduces."""
import json, os
import ref, spec
from ref import insn, lddw
from driver import Driver

GOOD = 0x600d600d


def classify_value(v, md):
    """(region, delta) if v lies in/near a region of the model, else None"""
    regs = [('mem', md['mem_base'], md['mem_len']), ('mbuff', md['mbuff_base'], md['mbuff_len']), ('stack', md['stack_base'], 512)]
    for j, (p, lo, hi) in enumerate(md['ranges']):
        if p: regs.append((f'range{j}', lo, max(hi - lo, 0)))
    for name, b, l in regs:
        if b - 4096 <= v <= b + l + 4096: return name, v - b
    return None


def build_interp_program(md, observe_reg=None, land=None, observe_mem=False):
    """program that reaches the model's loop-head state at pc (depth 0) and executes the instruction there."""
    p = md['pc']; n = md['prog_len'] // 8
    depth = md['sfi']
    if depth < 0 or depth > 8: return None, f'model call depth {depth} out of range'
    # call depth k > 0 is reached by k local calls to the next instruction (call +0) in front of the register set-up
    pre = insn(0x85, 0, 1, 0, 0) * depth; patches = []; fix_stack = []
    RANGE_OFF = lambda j: 64 + 128 * j
    kcls, kinfo = spec.classify(md['opc'])
    base_reg = None; addr_adj = 0; minus = None
    off_s = ref.sx(md['off'], 16)
    if kcls in ('st', 'stx', 'xadd'): base_reg, addr_adj = md['dst'], off_s
    elif kcls == 'ldx': base_reg, addr_adj = md['src'], off_s
    elif kcls == 'ldind': base_reg, addr_adj, minus = md['src'], (md['imm'] & 0xffffffff) + md['mem_base'], 'mem'
    for r in range(10):
        v = md['regs'][r]; cv = classify_value(v, md); sub = None; adj = 0
        if r == base_reg:
            # the register only matters through the effective address: place the *address* relative to its region
            ca = classify_value((v + addr_adj) & ref.M64, md)
            if ca is not None:
                cv = ca; adj = addr_adj if minus is None else (md['imm'] & 0xffffffff); sub = minus
        slot = len(pre) // 8
        if cv is None: pre += lddw(r, v)
        else:
            name, delta = cv; delta -= adj
            if name == 'stack' and depth > 0: return None, 'stack-relative value at call depth > 0 is not replayable'
            if name == 'stack' and sub is None:       # stack_base + delta = r10 - 512 + delta
                if not (-2**31 <= delta - 512 < 2**31): return None, 'stack-relative delta out of range'
                pre += insn(0xbf, r, 10) + insn(0x07, r, 0, 0, delta - 512)
            elif name == 'stack': return None, 'stack-relative ldind address not replayable'
            elif name.startswith('range'):
                patches.append((slot, 'extra', RANGE_OFF(int(name[5:])) + delta) + ((sub,) if sub else ())); pre += lddw(r, 0)
            else:
                patches.append((slot, name, delta) + ((sub,) if sub else ())); pre += lddw(r, 0)
    L = len(pre) // 8
    if p < L: return None, f'model pc {p} too small for the {L}-slot prelude'
    # keep the model's program length when the instruction is the last one (running off the end is the point of such a model); pad only when an
    # observation instruction or a landing pad has to follow
    need = p + 1 if (md['opc'] in (0x05, 0x95) and observe_reg is None and not observe_mem and land is None) else p + 2       # only ja / exit may be last
    if n < need: n = need
    if n > 200000: return None, f'program of {n} slots too large to replay'
    slots = [insn(0x95)] * n
    for i in range(L): slots[i] = pre[8 * i:8 * i + 8]
    for i in range(L, p): slots[i] = insn(0x47, 0, 0, 0, 0)           # or64 r0, 0 : identity sled (no jumps involved)
    slots[p] = bytes([md['opc'], md['regbyte']]) + (md['off'] & 0xffff).to_bytes(2, 'little') + (md['imm'] & 0xffffffff).to_bytes(4, 'little')
    k = spec.classify(md['opc'])[0]
    nxt = p + 1
    if k == 'lddw':
        slots[p + 1] = bytes([md['nopc'], md['nregbyte']]) + (md['noff'] & 0xffff).to_bytes(2, 'little') + (md['next_imm'] & 0xffffffff).to_bytes(4, 'little')
        nxt = p + 2
    if land is not None:
        if land + 1 >= n or land <= p and land + 1 >= L:
            if land <= p: return None, f'backward landing pad at {land} would cut the sled'
        if land + 1 >= n: slots += [insn(0x95)] * (land + 2 - n); n = len(slots)
        slots[land] = insn(0xb7, 0, 0, 0, GOOD); slots[land + 1] = insn(0x95)
    elif observe_mem and kcls in ('st', 'stx', 'xadd'):
        # read the stored bytes back into r0 (a store into the eBPF stack is not visible in any buffer after the run)
        while len(slots) < nxt + 2: slots.append(insn(0x95))
        slots[nxt] = insn({1: 0x71, 2: 0x69, 4: 0x61, 8: 0x79}[kinfo['size']], 0, md['dst'], off_s); slots[nxt + 1] = insn(0x95)
    elif observe_reg is not None and nxt + 1 < n + 2:
        while len(slots) < nxt + 2: slots.append(insn(0x95))
        slots[nxt] = insn(0xbf, 0, observe_reg); slots[nxt + 1] = insn(0x95)
    prog = b''.join(slots)
    mem = bytes(md['mem_bytes'][:md['mem_len']]) + bytes(max(0, min(md['mem_len'], 4096) - len(md['mem_bytes'])))
    mbuff = bytes(md['mbuff_bytes'][:md['mbuff_len']]) + bytes(max(0, min(md['mbuff_len'], 4096) - len(md['mbuff_bytes'])))
    extra = bytearray(64 + 128 * max(1, len(md['ranges'])))
    allowed = []
    for j, (pz, lo, hi) in enumerate(md['ranges']):
        if not pz: continue
        ln = max(hi - lo, 0)
        if ln > 64: return None, 'registered range too long to replay'
        rb = md['range_bytes'][j]
        extra[RANGE_OFF(j):RANGE_OFF(j) + len(rb)] = bytes(rb)
        allowed.append(('extra', RANGE_OFF(j), ln))
    return dict(prog=prog, mem=mem, mbuff=mbuff, extra=bytes(extra), allowed=allowed, patch=patches), None


def run_ref(b, resp, helpers):
    """reference run with the buffer addresses the native run used"""
    prog = bytearray(b['prog'])
    base = dict(mem=resp['mem_addr'], mbuff=resp['mbuff_addr'], extra=resp['extra_addr'])
    for pt in b['patch']:
        slot, which, delta = pt[:3]
        v = (base[which] + delta - (base[pt[3]] if len(pt) > 3 else 0)) & ref.M64
        prog[slot * 8 + 4:slot * 8 + 8] = (v & 0xffffffff).to_bytes(4, 'little'); prog[slot * 8 + 12:slot * 8 + 16] = (v >> 32).to_bytes(4, 'little')
    allowed = [(base[w] + o, base[w] + o + l) for w, o, l in b['allowed']]
    R = ref.Regions(b['mem'], base['mem'], b['mbuff'], base['mbuff'], b['extra'], base['extra'], allowed)
    out = ref.run(bytes(prog), R, helpers={k: v for k, v in helpers})
    out['mem'] = bytes(R.bufs['mem'][1]).hex(); out['mbuff'] = bytes(R.bufs['mbuff'][1]).hex(); out['extra'] = bytes(R.bufs['extra'][1]).hex()
    return out


def differs(nat, rf):
    if rf['status'] in ('timeout', 'illformed'): return None, f'reference run {rf["status"]}: {rf.get("reason")}'
    if nat['status'] in ('panic', 'signal', 'driver_died'): return True, f'native {nat["status"]} ({nat.get("msg", nat.get("sig"))}) vs reference {rf["status"]}'
    if nat['status'] == 'load_err': return None, 'native load error: ' + nat.get('msg', '')
    if nat['status'] != rf['status']: return True, f'native {nat["status"]} ({nat.get("msg", nat.get("value"))}) vs reference {rf["status"]} ({rf.get("reason", rf.get("value"))})'
    if nat['status'] == 'ok' and nat['value'] != rf['value']: return True, f'native value {nat["value"]:#x} vs reference {rf["value"]:#x}'
    for kx in ('mem', 'mbuff', 'extra'):
        if nat.get(kx) != rf.get(kx): return True, f'{kx} bytes differ: native {nat.get(kx)} vs reference {rf.get(kx)}'
    return False, f'native and reference agree ({nat["status"]} {nat.get("value")})'


def replay_interp(c, engine='interp'):
    md = c.get('model')
    if md is None: return True, 'structural finding (no model needed)'
    role = c['role']; aspect = role.split('/')[2] if role.count('/') >= 2 else role
    obs = md.get('reg') if aspect == 'reg-value' else None
    land = md.get('want') if aspect.startswith('pc-value') else None
    b, why = build_interp_program(md, observe_reg=obs, land=land, observe_mem=(aspect == 'mem-value'))
    if b is None: return None, why
    helpers = []
    k = spec.classify(md['opc'])[0]
    if k == 'call' and md['src'] == 0 and 'unregistered' not in aspect: helpers = [(md['imm'] & 0xffffffff, 'h1')]
    profiles = ['dev'] if c.get('profile', 'dev') == 'dev' else ['release']
    info = []
    for prof in profiles:
        d = Driver.get(prof)
        nat = d.run(b['prog'], vm='mbuff', mem=b['mem'], mbuff=b['mbuff'], extra=b['extra'], engine=engine, helpers=helpers,
                    allowed=b['allowed'], patch=b['patch'])
        if 'mem_addr' not in nat and nat.get('status') in ('signal', 'panic') and not b['patch']:
            # the native run died or hung before reporting its buffers; no pointer patches, so the reference run does not depend on the addresses
            nat = dict(nat, mem_addr=0x10000000, mbuff_addr=0x20000000, extra_addr=0x30000000, msg=nat.get('msg', 'timeout' if nat.get('sig') == 14 else ''))
        if 'mem_addr' not in nat and engine == 'interp' and (nat.get('status') == 'panic' or (nat.get('status') == 'signal' and nat.get('sig') != 14)):
            # the interpreter itself crashed (abort / fault / panic) on this program: that is the observation, whatever the reference says
            c['replay'] = dict(prog=b['prog'].hex() if len(b['prog']) < 4096 else f'<{len(b["prog"])//8} slots>', mem=b['mem'].hex(), mbuff=b['mbuff'].hex(), patch=b['patch'], allowed=b['allowed'], helpers=helpers, profile=prof, native=nat)
            return True, f'[{prof}] the interpreter crashes natively: {nat}'
        rf = run_ref(b, nat, helpers) if 'mem_addr' in nat else dict(status='illformed', reason=f'native run gave no buffer addresses: {str(nat)[:200]}')
        df, msg = differs(nat, rf)
        c['replay'] = dict(prog=b['prog'].hex() if len(b['prog']) < 4096 else f'<{len(b["prog"])//8} slots>', mem=b['mem'].hex(), mbuff=b['mbuff'].hex(),
                           patch=b['patch'], allowed=b['allowed'], helpers=helpers, profile=prof, native=dict((k2, v) for k2, v in nat.items() if k2 in ('status', 'value', 'msg', 'sig')),
                           reference=dict((k2, v) for k2, v in rf.items() if k2 in ('status', 'value', 'reason')))
        info.append(f'[{prof}] {msg}')
        if df: return True, '; '.join(info)
        if df is None: return None, '; '.join(info)
    return False, '; '.join(info)


def replay_file(path):
    d = json.load(open(path))
    print(json.dumps(d.get('replay'), indent=1)); print(d.get('replay_info'))
    return 0
