#!/usr/bin/env python3
import sys, os, importlib, time, traceback
sys.path.insert(0, os.path.dirname(os.path.abspath(__file__)))
sys.setrecursionlimit(20000)


def main():
    args = sys.argv[1:]
    if not args:
        print('usage: vcheck <Cxx> [--tier quick|thorough] [--replay file]'); return 2
    pid = args[0].upper(); i = 1; replay = None
    while i < len(args):
        if args[i] == '--tier': os.environ['VERIF_TIER'] = args[i + 1]; i += 2
        elif args[i] == '--replay': replay = args[i + 1]; i += 2
        elif args[i] == '--jobs': os.environ['VERIF_JOBS'] = args[i + 1]; i += 2
        else: i += 1
    import common, signal
    budget = int(os.environ.get('VERIF_BUDGET_S', '1500' if common.tier() == 'quick' else '14400'))
    def on_alarm(sig, frm):
        import faulthandler; faulthandler.dump_traceback(file=sys.stderr)
        print(f'MACHINERY: {pid} exceeded its wall-clock budget of {budget}s (inconclusive, never a pass)')
        print(f'[vcheck] {pid} tier={common.tier()} exit=2'); sys.stdout.flush()
        os._exit(2)
    signal.signal(signal.SIGALRM, on_alarm); signal.alarm(budget)
    try:
        mod = importlib.import_module('props.' + pid.lower())
    except ImportError as e:
        print(f'no check for {pid}: {e}'); return 2
    try:
        if replay: return mod.replay(replay)
        rc = mod.run()
    except Exception as e:
        traceback.print_exc()
        print(f'MACHINERY: {pid} check crashed: {e}')
        rc = 2
    print(f'[vcheck] {pid} tier={common.tier()} exit={rc}')
    return rc


if __name__ == '__main__':
    sys.exit(main())
