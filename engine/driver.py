"""Python side of the native driver (/verif/driver): build against /repo's working tree, talk JSON lines."""
import os, sys, json, subprocess, time
import common


class Driver:
    _procs = {}
    def __init__(self, profile='dev', features=('std',), hooks=True):
        self.profile = profile; self.features = tuple(features); self.hooks = hooks
        self.proc = None
    @staticmethod
    def get(profile='dev', features=('std',), hooks=True):
        k = (profile, tuple(features), hooks)
        if k not in Driver._procs:
            d = Driver(profile, features, hooks); d.start(); Driver._procs[k] = d
        return Driver._procs[k]
    def build(self):
        tdir = os.path.join(common.WORK, 'driver-target' + ('' if 'std' in self.features else '-nostd') + ('' if self.hooks else '-nohooks'))
        cmd = ['cargo', 'build', '--offline', '--manifest-path', os.path.join(common.VERIF, 'driver', 'Cargo.toml'),
               '--target-dir', tdir, '--no-default-features'] + (['--features', ','.join(self.features)] if self.features else [])
        if self.profile == 'release': cmd.append('--release')
        env = common.cargo_env('--cfg ' + common.HOOK_CFG if self.hooks else '')
        with common.Lock('driver-build'):
            t0 = time.time()
            r = subprocess.run(cmd, stdout=subprocess.PIPE, stderr=subprocess.STDOUT, env=env)
            if r.returncode != 0:
                sys.stderr.write(r.stdout.decode()[-6000:])
                raise RuntimeError('driver build failed')
            dt = time.time() - t0
            if dt > 3: sys.stderr.write(f'[driver] built {self.profile} {self.features} in {dt:.1f}s\n')
        return os.path.join(tdir, 'release' if self.profile == 'release' else 'debug', 'verif-driver')
    def start(self):
        exe = self.build()
        self.proc = subprocess.Popen([exe], stdin=subprocess.PIPE, stdout=subprocess.PIPE, stderr=subprocess.DEVNULL, bufsize=0)
    def request(self, req):
        if self.proc is None or self.proc.poll() is not None: self.start()
        self.proc.stdin.write((json.dumps(req) + '\n').encode()); self.proc.stdin.flush()
        line = self.proc.stdout.readline()
        if not line:
            rc = self.proc.poll(); self.proc = None
            return {'status': 'driver_died', 'rc': rc}
        return json.loads(line)
    def run(self, prog, vm='raw', mem=b'', mbuff=b'', extra=b'', engine='interp', helpers=(), allowed=(), patch=(),
            stack_usage=None, guard='end', verifier='default', fixed=None, isolate=True, timeout_s=20, bufpatch=()):
        req = dict(op='run', vm=vm, prog=bytes(prog).hex(), mem=bytes(mem).hex(), mbuff=bytes(mbuff).hex(), extra=bytes(extra).hex(),
                   engine=engine, helpers=[list(h) for h in helpers], allowed=[list(a) for a in allowed], patch=[list(p) for p in patch],
                   guard=guard, verifier=verifier, isolate=isolate, timeout_s=timeout_s, bufpatch=[list(b) for b in bufpatch])
        if stack_usage is not None: req['stack_usage'] = stack_usage
        if fixed is not None: req['fixed'] = list(fixed)
        r = self.request(req)
        if 'value' in r: r['value'] = int(r['value'])
        return r
    @staticmethod
    def close_all():
        for d in Driver._procs.values():
            try:
                d.proc.stdin.close(); d.proc.wait(timeout=2)
            except Exception: pass
        Driver._procs.clear()
