"""C03 -- x86-64 JIT-compiled code computes the same result as the interpreter (translation validation)."""
import json
import multiprocessing as mp
import common, spec, jitcheck, jitwhole
from common import Report


def run():
    rep = Report('C03', 'translation_validation', '5/C03')
    t = common.tier(); timeout = 20000 if t == 'quick' else 120000
    common.load_mir('std')
    from driver import Driver
    Driver('dev').build()
    insts = jitcheck.instances(t)
    nj = min(common.jobs(), 16)
    with mp.Pool(nj) as pool:
        res = pool.map(jitcheck.worker, [(insts[i::nj], ('C03',), timeout) for i in range(nj)])
    cands = []
    for r in res:
        rep.merge_counts(r['out']); cands += r['cands']
        for s in r['out'].get('stubs', []):
            if 'stub: ' + s not in rep.assumptions: rep.assumptions.append('stub: ' + s)
    # premise of the per-instruction simulation: emission is a function of the current instruction alone (MIR of jit_compile, every accepted opcode)
    import jitcontext
    o3, c3, notes = jitcontext.run([o for o in spec.VERIFIER_OK if spec.classify(o)[0] not in ('call', 'exit')], ('C03',), timeout, 'jit-program')
    rep.merge_counts(o3); cands += c3; rep.machinery_errors += notes
    rep.extra['context_freedom_opcodes'] = o3.get('programs', 0)
    out2, c2 = jitwhole.run_families(t, timeout, ('F2', 'F3', 'F5', 'F1w'))
    rep.merge_counts(out2); cands += c2
    ops = sorted(set(spec.opname(i[0]) for i in insts))
    rep.extra['per_instruction_instances'] = len(insts); rep.extra['opcodes_covered'] = len(ops)
    rep.extra['whole_program_instances'] = out2.get('programs', 0)
    rep.assumptions += [
        'oracle: the interpreter step extracted from the MIR of execute_program (same register values, same memory, packet base = the register the JIT keeps it in)',
        'premise of the property: the interpreter continues (all accesses in bounds) and eBPF-visible regions do not overlap the native stack scratch area [RSP-128, RSP+64)',
        'per-instruction simulation under the register map r0..r10 -> rax,rdi,rsi,rdx,r9,r8,rbx,r13,r14,r15,rbp; RSP, the packet pointer register r10 and r12 must be preserved by every instruction; rcx and r11 are scratch',
        'x86-64 semantics table of engine/x86sym.py (only the encodings the JIT emits; anything else is reported as undecodable, exit 2)',
        'r1-r5 after a helper call are outside the claim; local calls and exit are covered by C07, the helper ABI by C08, prologue context by C09',
        'context-freedom premise: shown per opcode on the MIR of jit_compile (no program byte outside the current instruction flows into one iteration); where it fails, context programs are validated whole',
        'lifting to whole programs: induction on executed instructions using the simulation relation plus the jump-resolution obligations of the control-flow family (paper step)']
    rep.bounds = dict(instances=len(insts), register_pairs='covering set' if t == 'quick' else 'all dst x src', immediates='code-derived classes', offsets='code-derived classes',
                      operand_values='all 64-bit register and memory contents (symbolic)', per_query_timeout_ms=timeout)
    for c in cands[:3]:
        rep.samples.append(dict(role=c['role'], detail=c['detail']))
    return rep.finish(cands, lambda c: jitwhole.replay(c) if c.get('whole') else jitcheck.replay_jit(c))


def replay(path):
    d = json.load(open(path)); print(json.dumps(d, indent=1)); return 0
