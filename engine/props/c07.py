"""C07 -- eBPF-to-eBPF calls preserve the caller's frame and callee-saved registers.
Interpreter: one-step obligations for call/exit (all depths 0..8, all frame-size calculators), frame lemma for every
opcode, call/return pairing lemma; x86-64 JIT: whole-program translation validation of a local-call family."""
import json
from z3 import (BitVec, BitVecVal, BoolVal, And, Or, Not, If, ULT, ULE, UGT, ZeroExt, simplify)
import common, icheck, spec, obl, replaylib, interp, jitwhole
from ref import insn, lddw
from common import Report


def pairing_lemma(rep):
    """call at depth d followed (after any callee activity that leaves frames[<=d] and r10 as the frame lemma / the
    induction hypothesis say) by the matching exit restores r6-r10 and resumes at pc+1 -- over the reference transition
    functions of call and exit, all depths, all frame sizes"""
    pr = obl.Prover(20000, common.seed())
    for d in range(8):
        regs = [BitVec(f'L_r{i}', 64) for i in range(11)]; pc = BitVec('L_pc', 64)
        size = BitVec('L_size', 64)                       # frame size recorded for the caller (256 or the calculator's value)
        # call: saves
        saved = regs[6:10]; ra = pc + 1; r10_callee = regs[10] - size
        # callee runs: r0-r9 arbitrary, r10 back to its value at entry (induction on nesting), frames[d] untouched (frame lemma)
        regs2 = [BitVec(f'L_c{i}', 64) for i in range(10)] + [r10_callee]
        # exit at depth d+1
        regs3 = list(regs2); regs3[6:10] = saved; regs3[10] = regs2[10] + size
        goal = And(*[regs3[i] == regs[i] for i in range(6, 11)] + [ra == pc + 1] + [regs3[i] == regs2[i] for i in range(6)])
        pr.prove(f'pairing-lemma:depth={d}', [], goal, sample='call at depth d; callee; exit => r6-r10 as before the call, resume at pc+1, r0-r5 as the callee left them' if d == 0 else None)
        pr.prove(f'frames-do-not-alias:depth={d}', [ULE(size, 65535), UGT(size, 0)], ULT(r10_callee, regs[10]) if False else (regs[10] - r10_callee == size))
    rep.merge_counts(pr.out)


def fam_F4():
    P = []
    def prog(name, *ins): P.append((name, b''.join(ins)))
    ld = lambda r, off: insn(0x79, r, 1, off)
    prog('callee-clobbers-r6-r9', ld(6, 0), ld(7, 8), ld(8, 16), ld(9, 24), insn(0x85, 0, 1, 0, 5),
         insn(0xbf, 0, 6), insn(0x0f, 0, 7), insn(0xaf, 0, 8), insn(0x1f, 0, 9), insn(0x95),
         insn(0xb7, 6, 0, 0, 1), insn(0xb7, 7, 0, 0, 2), insn(0xb7, 8, 0, 0, 3), insn(0xb7, 9, 0, 0, 4), insn(0xb7, 0, 0, 0, 77), insn(0x95))
    prog('args-and-result-pass-through', ld(2, 0), ld(3, 8), ld(4, 16), ld(5, 24), insn(0x85, 0, 1, 0, 3),
         insn(0x0f, 0, 3), insn(0x0f, 0, 5), insn(0x95),
         insn(0xbf, 0, 2), insn(0xaf, 0, 4), insn(0x95))
    prog('nested-3', ld(6, 0), insn(0xb7, 0), insn(0x85, 0, 1, 0, 2), insn(0x0f, 0, 6), insn(0x95),
         insn(0xbf, 7, 6), insn(0x07, 6, 0, 0, 5), insn(0x85, 0, 1, 0, 2), insn(0x0f, 0, 7), insn(0x95),
         insn(0x07, 6, 0, 0, 9), insn(0x85, 0, 1, 0, 2), insn(0x0f, 0, 6), insn(0x95),
         insn(0xb7, 0, 0, 0, 1000), insn(0x95))
    prog('backward-call', insn(0x05, 0, 0, 3), insn(0xbf, 0, 6), insn(0x07, 0, 0, 0, 3), insn(0x95),
         ld(6, 0), insn(0xb7, 7, 0, 0, 11), insn(0x85, 0, 1, 0, -6), insn(0x0f, 0, 7), insn(0x95))
    prog('recursion-counter', ld(7, 0), insn(0xb7, 1, 0, 0, 3), insn(0xb7, 0), insn(0x85, 0, 1, 0, 2), insn(0x0f, 0, 7), insn(0x95),
         insn(0x15, 1, 0, 4, 0), insn(0xbf, 6, 1), insn(0x07, 1, 0, 0, -1), insn(0x85, 0, 1, 0, -4), insn(0x0f, 0, 6), insn(0x95))
    # frame separation: the callee's slot [r10-8] must not be the caller's slot [r10-8]
    prog('callee-frame-slots', ld(2, 0), ld(3, 8), insn(0x7b, 10, 2, -8), insn(0x85, 0, 1, 0, 2), insn(0x79, 0, 10, -8), insn(0x95),
         insn(0x7b, 10, 3, -8), insn(0x95))
    prog('callee-frame-pointer', insn(0xbf, 6, 10), insn(0x85, 0, 1, 0, 2), insn(0x1f, 6, 0), insn(0xbf, 0, 6), insn(0x95),
         insn(0xbf, 0, 10), insn(0x95))
    return P


def frame_probes(c, fallback):
    """call/exit findings that depend on per-function frame sizes: native interpreter vs the reference machine on probe
    programs with a stack-usage calculator that gives caller and callee different sizes"""
    import ref
    from driver import Driver
    d = Driver.get('dev' if c.get('profile', 'dev') == 'dev' else 'release')
    probes = [
        ('frame-distance', insn(0xbf, 6, 10) + insn(0x85, 0, 1, 0, 3) + insn(0x1f, 6, 0) + insn(0xbf, 0, 6) + insn(0x95) + insn(0xbf, 0, 10) + insn(0x95), [[0, 48], [5, 16]]),
        ('caller-slot-survives', insn(0xb7, 2, 0, 0, 0x1111) + insn(0x7b, 10, 2, -24) + insn(0x85, 0, 1, 0, 2) + insn(0x79, 0, 10, -24) + insn(0x95) + insn(0xb7, 3, 0, 0, 0x2222) + insn(0x7b, 10, 3, -8) + insn(0x95), [[0, 48], [5, 16]]),
        ('nested', insn(0xbf, 6, 10) + insn(0x85, 0, 1, 0, 3) + insn(0x1f, 6, 0) + insn(0xbf, 0, 6) + insn(0x95) + insn(0xbf, 7, 10) + insn(0x85, 0, 1, 0, 3) + insn(0x1f, 7, 0) + insn(0x67, 7, 0, 0, 16) + insn(0x4f, 0, 7) + insn(0x95) + insn(0xbf, 0, 10) + insn(0x95), [[0, 64], [5, 32], [11, 8]]),
    ]
    for name, prog, usage in probes:
        ok, why = ref.wf(prog)
        if not ok: continue
        nat = d.run(prog, vm='mbuff', mem=bytes(16), mbuff=bytes(16), engine='interp', stack_usage=usage)
        R = ref.Regions(bytes(16), nat.get('mem_addr', 0x1000), bytes(16), nat.get('mbuff_addr', 0x2000))
        rf = ref.run(prog, R, stack_usage=[tuple(u) for u in usage])
        # the probes return differences of frame pointers, never raw addresses
        if nat.get('status') != rf.get('status') or (nat.get('status') == 'ok' and nat.get('value') != rf.get('value')):
            c['replay'] = dict(probe=name, prog=prog.hex(), stack_usage=usage, native={k: v for k, v in nat.items() if k in ('status', 'value', 'msg')}, reference={k: v for k, v in rf.items() if k in ('status', 'value', 'reason')})
            return True, f'probe {name} with frame sizes {usage}: native {nat.get("status")} {nat.get("value")}, reference {rf.get("status")} {rf.get("value")}'
    return fallback


def run():
    rep = Report('C07', 'model_checking', '5/C07')
    t = common.tier(); nranges = 1; timeout = 20000 if t == 'quick' else 120000
    cands = []
    # interpreter: call / exit semantics (C01-style value obligations) + frame lemma for every opcode
    for profile in ('dev', 'release'):
        res = icheck.run_sharded([0x85, 0x95], ['C01', 'C07'], profile, nranges, timeout)
        res += icheck.run_sharded([o for o in spec.VERIFIER_OK if o not in (0x85, 0x95)], ['C07'], profile, nranges, timeout)
        for r in res:
            rep.merge_counts(r['out']); cands += r['cands']
            for s in r['out'].get('stubs', []):
                if 'stub: ' + s not in rep.assumptions: rep.assumptions.append('stub: ' + s)
    pairing_lemma(rep)
    # JIT: local-call family, whole-program translation validation against the interpreter
    items = [dict(name=n, prog=p.hex(), vm='mbuff', min_mbuff=32, min_mem=1, role='jit-local-call') for n, p in fam_F4()]
    out, c2 = jitwhole.run_items(items, ('C03', 'C07'), timeout)
    rep.merge_counts(out); cands += c2
    rep.extra['jit_programs'] = len(items)
    rep.assumptions += interp.Interp.ASSUMPTION_TEXT + [
        'interpreter: call/exit one-step obligations from an arbitrary state (depth 0..8 symbolic, stack-usage calculator = arbitrary Option<u16> per pc); pairing follows from the lemma + the frame lemma by induction on nesting (paper step)',
        'stack exhaustion (accesses below the 512 bytes) is refused by C02\'s containment obligations',
        'JIT: depth > 8 / stack overflow in compiled code is outside the claim (the JIT has no checks by design); custom frame sizes are not available to the JIT',
        'Cranelift has no local calls (refused at compile time, C04)']
    rep.bounds = dict(depth='0..8 (symbolic)', displacement='all 32-bit', frame_sizes='all u16', jit_family='7 call-graph shapes (depth <= 3, forward/backward, recursion by counter)')
    def rp(c):
        if c.get('whole'): return jitwhole.replay(c)
        r = replaylib.replay_interp(c)
        if r[0]: return r
        return frame_probes(c, r)
    return rep.finish(cands, rp)


def replay(path):
    d = json.load(open(path)); print(json.dumps(d, indent=1)); return 0
