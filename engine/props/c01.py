"""C01 -- the interpreter computes the ISA semantics (one-step obligations for every opcode, all operands)."""
import common, icheck, spec, replaylib
from common import Report


def run():
    rep = Report('C01', 'model_checking', '5/C01')
    t = common.tier()
    nranges = 2 if t == 'quick' else 3
    timeout = 20000 if t == 'quick' else 120000
    cands = []
    profiles = ['dev', 'release']
    for profile in profiles:
        res = icheck.run_sharded(spec.VERIFIER_OK, ['C01'], profile, nranges, timeout)
        arms = {}
        for r in res:
            rep.merge_counts(r['out']); cands += r['cands']; arms.update(r['stats'])
            for s in r['out'].get('stubs', []):
                if s not in rep.assumptions: rep.assumptions.append('stub: ' + s)
        missing = [spec.opname(o) for o in spec.VERIFIER_OK if o not in arms]
        if missing: rep.machinery_errors.append(f'arms not explored ({profile}): {missing}')
        rep.extra.setdefault('arms_explored', {})[profile] = len(arms)
        rep.extra.setdefault('paths', {})[profile] = {k: sum(a[k] for a in arms.values()) for k in ('cut', 'ret_ok', 'ret_err', 'panic')}
    import interp
    rep.assumptions += interp.Interp.ASSUMPTION_TEXT + [
        'the instruction at pc satisfies the well-formedness facts of C06 (verifier-accepted program)',
        'memory instructions: value obligations assume the access is allowed (refusals are C02)',
        'helper results are an uninterpreted function of (helper address, r1..r5); r1-r5 after a helper call are not compared beyond being unchanged by the interpreter itself',
        'whole runs follow by induction on executed instructions (paper step); non-termination is not a value and not claimed']
    rep.bounds = dict(pc='[0, 1,000,000)', registers='all 64-bit values', immediates='all 32-bit', offsets='all 16-bit',
                      call_depth='0..8 symbolic', registered_ranges=nranges, steps='1 (inductive step from an arbitrary loop-head state)',
                      profiles=profiles, per_query_timeout_ms=timeout)
    return rep.finish(cands, replaylib.replay_interp)


def replay(path):
    return replaylib.replay_file(path)
