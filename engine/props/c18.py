"""C18 -- atomic add really is atomic under concurrent executions.
Per engine the *shape* of the update is extracted from the real artefact (interpreter MIR: fetch_add after the alignment
test; JIT bytes: lock-prefixed add r/m, r; CLIF: atomic_rmw add), its functional effect is proved for all addends/widths/
alignments, and a bounded interleaving model whose per-thread steps are generated from the extracted shapes is checked by
z3 over all schedules (symbolic schedule variables)."""
import json, itertools
from z3 import (BitVec, BitVecVal, BoolVal, Int, IntVal, And, Or, Not, If, Distinct, Solver, sat, unsat, Extract, ZeroExt, Sum, simplify)
import common, icheck, spec, obl, replaylib, interp, jitcheck, clifcheck, clifsym, ref
from ref import insn
from common import Report
from driver import Driver


def engine_shapes(rep, cands, timeout):
    """returns {engine: {width: 'atomic' | 'split'}}"""
    shapes = {'interp': {}, 'jit': {}, 'cranelift': {}}
    # interpreter: functional obligations + shape from the event log (icheck C18)
    for profile in ('dev', 'release'):
        for r in icheck.run_sharded([0xc3, 0xdb], ['C18'], profile, 1, timeout):
            rep.merge_counts(r['out']); cands += r['cands']
    for w, opc in ((32, 0xc3), (64, 0xdb)):
        bad = [c for c in cands if c['role'].startswith(f'interp/xadd{w // 8}/not-a-single-atomic-rmw')]
        shapes['interp'][w] = 'split' if bad else 'atomic'
    # JIT: decode the emitted bytes for xadd instances
    ctx = jitcheck.Ctx(timeout)
    for inst in [i for i in jitcheck.instances(common.tier()) if spec.classify(i[0])[0] == 'xadd']:
        cs = jitcheck.check_instance(ctx, inst, ('C03',)); cands += cs
        w = 32 if inst[0] == 0xc3 else 64
        prog = jitcheck.build_program(inst, 1)
        r = jitcheck.compile_jit(ctx, prog)
        import x86sym
        code = bytes.fromhex(r['code']); locs = r['pc_locs']
        rep.obligations += 1
        try:
            ins = []; ip = locs[1]
            while ip < locs[2]:
                I = x86sym.decode(code, ip); ins.append(I); ip += I.len
            ok = len(ins) == 1 and ins[0].op == 'add_mr' and ins[0].lock and ins[0].mod != 3 and ins[0].w == w
        except x86sym.Undecodable as e:
            ok = False
        if ok: rep.discharged += 1; shapes['jit'].setdefault(w, 'atomic')
        else:
            shapes['jit'][w] = 'split'
            cands.append(dict(role=f'jit/xadd{w // 8}/not-a-lock-prefixed-add', detail=f'emitted bytes {code[locs[1]:locs[2]].hex()} are not a single lock add r/m{w}, r{w} [{inst}]', model=None, friendly=True))
    rep.merge_counts(ctx.pr.out)
    Driver.close_all()
    # Cranelift: CLIF of an xadd program
    d = Driver.get('dev', features=('std', 'cranelift'))
    for w, opc in ((32, 0xc3), (64, 0xdb)):
        for (dd, ss, off) in ((1, 2, 0), (10, 3, -8), (6, 7, 16)):
            prog = insn(0xb7, 2, 0, 0, 5) + insn(0xb7, 3, 0, 0, 5) + insn(0xbf, 6, 1) + insn(0xb7, 7, 0, 0, 9) + insn(opc, dd, ss, off, 0) + insn(0xb7, 0) + insn(0x95)
            r = d.request(dict(op='compile', vm='mbuff', prog=prog.hex(), engine='cranelift', helpers=[]))
            rep.obligations += 1
            ok = False
            if r.get('status') == 'ok':
                F = clifsym.parse(r['clif'])
                rmw = [I for b in F.blocks.values() for I in b['insts'] if I.op == 'atomic_rmw']
                plain = [I for b in F.blocks.values() for I in b['insts'] if I.op in ('load', 'store') and I.loc == 4]
                ok = len(rmw) == 1 and rmw[0].ty == f'i{w}' and 'add' in rmw[0].args.split() and not plain
            if ok: rep.discharged += 1; shapes['cranelift'].setdefault(w, 'atomic')
            else:
                shapes['cranelift'][w] = 'split'
                cands.append(dict(role=f'clif/xadd{w // 8}/not-an-atomic-rmw', detail=f'CLIF for xadd{w // 8} [dst r{dd}, src r{ss}, off {off}] is not a single atomic_rmw.i{w} add', model=None, friendly=True))
    # Cranelift functional part (value/memory equal to the interpreter, traps) rides on clifcheck
    import props.c04 as c04
    items = c04.items_for(common.tier(), kinds=('xadd',))
    out, c3 = clifcheck.run_items(items, ('C04', 'C11'), timeout)
    rep.merge_counts(out); cands += c3
    return shapes


def interleavings(rep, cands, shapes):
    """N threads x K adds on one shared word; each add is one atomic step or (load; store) according to the extracted shape.
    z3 chooses the schedule (position variables), the addends and the initial value; obligation: final = init + sum."""
    t = common.tier()
    # (threads, adds per thread): quick 2x2; thorough adds 3x1 and 2x3 (3x2 does not finish: > 50 min for 20 engine combinations)
    configs = [(2, 2)] if t == 'quick' else [(2, 2), (3, 1), (2, 3)]
    for w in (32, 64):
      engines = list(shapes.keys())
      for (N, K) in configs:
        for combo in itertools.combinations_with_replacement(engines, N):
              s = Solver(); s.set('timeout', 60000)
              steps = []        # (thread, kind, addend, tmp)
              # integer encoding of the mod-2^w word (the update is pure addition, so the reduction can be taken once at the end):
              # bit-blasting cannot show that a sum of bit-vectors is independent of a symbolic order, linear integer arithmetic can
              M = 1 << w
              init = Int('init'); s.add(init >= 0, init < M); adds = {}
              for ti, eng in enumerate(combo):
                  for k in range(K):
                      a = Int(f'add_{ti}_{k}'); s.add(a >= 0, a < M); adds[(ti, k)] = a
                      if shapes[eng].get(w, 'atomic') == 'atomic': steps.append((ti, 'rmw', a, None))
                      else:
                          tmp = Int(f'tmp_{ti}_{k}'); steps.append((ti, 'load', a, tmp)); steps.append((ti, 'store', a, tmp))
              T = len(steps)
              pos = [Int(f'pos_{i}') for i in range(T)]
              s.add(Distinct(*pos)); s.add(*[And(p >= 0, p < T) for p in pos])
              for i in range(T):
                  for j in range(i + 1, T):
                      if steps[i][0] == steps[j][0]: s.add(pos[i] < pos[j])       # program order inside a thread
              val = init
              for tau in range(T):
                  nv = val
                  for i, (ti, kind, a, tmp) in enumerate(steps):
                      here = pos[i] == tau
                      if kind == 'rmw': nv = If(here, val + a, nv)
                      elif kind == 'load': s.add(Or(Not(here), tmp == val))
                      elif kind == 'store': nv = If(here, tmp + a, nv)
                  val = nv
              total = init
              for a in adds.values(): total = total + a
              s.add((val - total) % M != 0)
              r = s.check()
              rep.obligations += 1
              name = f'interleaving:w{w}:{"+".join(combo)}:{N}threads:{K}adds'
              rep.nontrivial.add(name)
              if r == unsat:
                  rep.discharged += 1
                  if len(rep.samples) < 8: rep.samples.append(f'{name}: final word = initial + sum of addends (mod 2^{w}) for every schedule of {T} steps')
              elif r == sat:
                  m = s.model()
                  sched = sorted(range(T), key=lambda i: m.eval(pos[i]).as_long())
                  cands.append(dict(role=f'interleaving/w{w}/lost-update:{"+".join(sorted(set(e for e in combo if shapes[e].get(w) == "split")))}',
                                    detail=f'schedule {[(steps[i][0], steps[i][1]) for i in sched]} loses an update (engines {combo})', model=None, friendly=True,
                                    schedule=[(steps[i][0], steps[i][1]) for i in sched]))
              else: rep.inconclusive.append(name)
    rep.bounds['threads_x_adds'] = [list(c) for c in configs]


def run():
    rep = Report('C18', 'model_checking', '5/C18')
    timeout = 20000 if common.tier() == 'quick' else 120000
    common.load_mir('std'); Driver('dev').build()
    cands = []
    shapes = engine_shapes(rep, cands, timeout)
    rep.extra['extracted_shapes'] = shapes
    interleavings(rep, cands, shapes)
    # vacuity guard: the same model with one engine's update deliberately split into load/store must lose an update
    twin_c = []; twin_rep = Report('C18-twin', 'model_checking')
    interleavings(twin_rep, twin_c, {'interp': {32: 'split', 64: 'split'}, 'jit': dict(shapes['jit']), 'cranelift': dict(shapes['cranelift'])})
    if any('lost-update' in x['role'] for x in twin_c): rep.twins += len(twin_c)
    else: rep.machinery_errors.append('vacuity guard: the interleaving model does not lose an update even when an update is split into load/store')
    rep.assumptions += interp.Interp.ASSUMPTION_TEXT + [
        'trusted primitives: AtomicU32/AtomicU64::fetch_add (std), the x86 lock prefix on add r/m, r (ISA), Cranelift atomic_rmw add are atomic read-modify-write operations',
        'the interleaving model has one step per atomic primitive and two (load; store) for any update whose extracted shape is not a single atomic primitive; sequentially consistent interleavings of those steps',
        'functional part: M\' = M[addr..addr+w := old + trunc_w(src)], no other byte written, misaligned => interpreter Err with empty write log (all addends, widths, alignments: solver)']
    rep.bounds.update(dict(widths='32, 64', addends='all', alignments='all (symbolic address)', engine_mixes='all multisets of {interp, jit, cranelift}'))
    def rp(c):
        if c['role'].startswith('interp/'): return replaylib.replay_interp(c)
        if c['role'].startswith('clif-') or (c['role'].startswith('clif/') and c.get('model')): return clifcheck.replay(c)
        if c['role'].startswith('jit/') and c.get('model'): return jitcheck.replay_jit(c)
        return True, 'shape extracted from the real artefact / schedule found by the solver'
    return rep.finish(cands, rp)


def replay(path):
    d = json.load(open(path)); print(json.dumps(d, indent=1)); return 0
