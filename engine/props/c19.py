"""C19 -- the built-in helpers compute their documented functions.
gather_bytes / memfrob / strcmp: Kani harnesses over the real functions.  rand: mirsym on the MIR of helpers::rand with the
random generator as an environment stub (arbitrary u64), z3 shows the result is in [min, max] and no panic for all
min < max.  sqrti: mirsym + z3 floating-point theory (u64 -> f64 RNE, fp.sqrt RNE, saturating truncation)."""
import json
from z3 import (BitVec, BitVecVal, BoolVal, And, Or, Not, ULT, ULE, UGT, UGE, ZeroExt, Extract, simplify, is_true)
import z3
import common, mirsym, obl
from mirsym import V
from common import Report
import props.c17 as c17


def rand_part(rep, cands, timeout):
    mir, key = common.load_mir('std'); tt = common.type_table()
    for profile in ('dev', 'release'):
        eng = mirsym.Engine(mir, tt, timeout); eng.overflow_panics = (profile == 'dev'); pr = obl.Prover(timeout, common.seed())
        f = mir.funcs['helpers::rand']
        n = BitVec('rng_output', 64); mn, mx = BitVec('min', 64), BitVec('max', 64)
        eng.add_stub(r'LocalKey::with$', lambda e, st, fr, callee, args, R: R(V(n, 'u64')))
        st = mirsym.State(); fr = mirsym.Frame(f); fr.tag = 'top'; st.frames.append(fr)
        for (p, _), v in zip(f.params, [mn, mx, BitVec('a3', 64), BitVec('a4', 64), BitVec('a5', 64)]): fr.locals[p] = V(v, 'u64')
        paths = eng.explore(st)
        for p in paths:
            pc_ = list(p.st.pc)
            if p.kind == 'panic':
                r, m = pr.prove(f'rand:no-panic:{p.payload[0][:40]} ({profile})', pc_, BoolVal(False), sample='rand(min, max): no panic path for any min, max and generator output')
                if r == 'sat': cands.append(dict(role=f'helpers/rand/panic:{p.payload[0][:40]}', detail=f'{p.payload} ({profile})', model=dict(min=obl.mval(m, mn), max=obl.mval(m, mx), n=obl.mval(m, n), profile=profile), friendly=True))
            elif p.kind == 'return':
                v = p.payload.t
                r, m = pr.prove(f'rand:in-range ({profile})', pc_ + [ULT(mn, mx)], And(ULE(mn, v), ULE(v, mx)), sample='rand(min, max) in [min, max] for all min < max and every generator output')
                if r == 'sat': cands.append(dict(role='helpers/rand/out-of-range', detail=f'result outside [min, max] ({profile})', model=dict(min=obl.mval(m, mn), max=obl.mval(m, mx), n=obl.mval(m, n), profile=profile), friendly=True))
            else: pr.out['errors'].append(f'rand: path kind {p.kind}')
        rets = [p for p in paths if p.kind == 'return']
        if rets: pr.witness('rand:return', list(rets[-1].st.pc) + [ULT(mn, mx)])
        else: pr.out['errors'].append('rand never returns (vacuous)')
        pr.out['functions'] = {x: mir.fn_hash(x) for x in eng.used_funcs if x in mir.funcs}
        rep.merge_counts(pr.out)


def sqrti_part(rep, cands, timeout):
    mir, key = common.load_mir('std'); tt = common.type_table()
    eng = mirsym.Engine(mir, tt, timeout); pr = obl.Prover(max(timeout, 120000), common.seed()); pr.fresh_mode = True
    f = mir.funcs['sqrti']
    x = BitVec('x', 64)
    def isqrt_stub(e, st, fr, callee, args, R):
        # u64::isqrt by its defining property (128-bit products): r^2 <= a < (r+1)^2
        a = args[0].t; r = BitVec('isqrt_result', 64); a128 = ZeroExt(64, a); r128_ = ZeroExt(64, r)
        st.pc += [ULT(r, 1 << 32), ULE(r128_ * r128_, a128), ULT(a128, (r128_ + 1) * (r128_ + 1))]
        return R(V(r, 'u64'))
    eng.add_stub(r'<impl u64>::isqrt$', isqrt_stub)
    st = mirsym.State(); fr = mirsym.Frame(f); fr.tag = 'top'; st.frames.append(fr)
    for (p, _), v in zip(f.params, [x] + [BitVec(f'u{i}', 64) for i in range(4)]): fr.locals[p] = V(v, 'u64')
    paths = eng.explore(st)
    if len(paths) != 1 or paths[0].kind != 'return':
        rep.machinery_errors.append(f'sqrti: unexpected path structure {[p.kind for p in paths]}'); return
    r_ = paths[0].payload.t; pc0 = list(paths[0].st.pc)
    # (1) the documented definition: truncate(sqrt_f64(x as f64)), for ALL 64-bit arguments
    fx = z3.fpUnsignedToFP(z3.RNE(), x, z3.Float64()); sq = z3.fpSqrt(z3.RNE(), fx)
    spec_r = z3.fpToUBV(z3.RTZ(), sq, z3.BitVecSort(64))
    rr, m = pr.prove('sqrti:definition', pc0, r_ == spec_r, sample='sqrti(x) = trunc(fp.sqrt(RNE, u64->f64(RNE, x))) for all 64-bit x')
    if rr == 'sat': cands.append(dict(role='helpers/sqrti/definition', detail='not the truncated double-precision square root', model=dict(x=obl.mval(m, x)), friendly=True))
    if rr == 'unknown':
        # the general query did not finish (it is immediate when the body is the documented conversion chain, so the body changed): instantiate it at the
        # boundary family where integer and floating-point roots part - k^2 - 1, k^2, 2^j, 2^j +- 1, for k = 2^i and 2^i +- 1 - each instance is a concrete query
        fam = sorted({v for i in range(1, 33) for k in (2 ** i - 1, 2 ** i, 2 ** i + 1) for v in (k * k - 1, k * k, k * k + 1) if 0 <= v < 2 ** 64} | {2 ** j + dl for j in range(64) for dl in (-1, 0, 1)} | {2 ** 64 - 1})
        for c_ in fam:
            r2, m2 = pr.check(pc0 + [x == c_], [r_ != spec_r])
            if r2 == 'sat':
                cands.append(dict(role='helpers/sqrti/definition', detail=f'not the truncated double-precision square root (instance x = {c_} of the boundary family; the general query is undecided)', model=dict(x=c_), friendly=True)); break
        rep.extra['sqrti_boundary_instances'] = len(fam)
    # (2) exact integer square root below the bound
    bound = 1 << (16 if common.tier() == 'quick' else 20)
    r128 = ZeroExt(64, r_); x128 = ZeroExt(64, x)
    rr, m = pr.prove(f'sqrti:exact-integer-root<{bound}', [ULT(x, bound)], And(ULE(r128 * r128, x128), ULT(x128, (r128 + 1) * (r128 + 1))), sample=f'sqrti(x)^2 <= x < (sqrti(x)+1)^2 for x < {bound}')
    if rr == 'sat': cands.append(dict(role='helpers/sqrti/not-integer-root', detail='result is not the integer square root', model=dict(x=obl.mval(m, x)), friendly=True))
    pr.witness('sqrti:return', [x == 9, r_ == 3])
    pr.out['functions'] = {n: mir.fn_hash(n) for n in eng.used_funcs if n in mir.funcs}
    rep.merge_counts(pr.out)
    rep.bounds['sqrti_exact_root_bound'] = bound


def replay_c19(c):
    if c['role'].startswith('kani/'): return True, 'kani concrete playback: ' + str((c.get('replay') or {}).get('counterexample'))[:400]
    from driver import Driver
    md = c.get('model') or {}
    if c['role'].startswith('helpers/rand'):
        d = Driver.get(md.get('profile', 'dev'))
        for _ in range(4):        # the generator output is not controllable: a panic on the range arithmetic does not depend on it
            r = d.request(dict(op='call_helper', name='rand', args=[str(md['min']), str(md['max']), '0', '0', '0']))
            c['replay'] = dict(call=f"rand({md['min']}, {md['max']})", profile=md.get('profile'), native=r)
            if r.get('status') == 'panic': return True, f"rand({md['min']}, {md['max']}) panics natively ({md.get('profile')}): {r.get('msg')}"
            if r.get('status') == 'ok' and md['min'] < md['max'] and not (md['min'] <= int(r['value']) <= md['max']): return True, f"rand returned {r['value']} outside [{md['min']}, {md['max']}]"
        return False, 'native calls stayed in range and did not panic'
    if c['role'].startswith('helpers/sqrti'):
        import math
        d = Driver.get('dev'); r = d.request(dict(op='call_helper', name='sqrti', args=[str(md['x']), '0', '0', '0', '0']))
        c['replay'] = dict(call=f"sqrti({md['x']})", native=r)
        if r.get('status') != 'ok': return True, f"sqrti({md['x']}) {r.get('status')}"
        if c['role'].endswith('/definition'):
            want = min(int(math.sqrt(float(md['x']))), 2 ** 64 - 1)        # float(): u64 -> binary64 round-to-nearest-even; math.sqrt: correctly rounded; int(): truncation (saturating like `as u64`)
            return (int(r['value']) != want), f"sqrti({md['x']}) = {r['value']}, truncated double-precision root {want}"
        return (int(r['value']) != math.isqrt(md['x'])), f"sqrti({md['x']}) = {r['value']}, integer root {math.isqrt(md['x'])}"
    return True, 'solver model'


def run():
    rep = Report('C19', 'proof', '5/C19')
    timeout = 20000 if common.tier() == 'quick' else 120000
    cands = []
    c17.kani_part(rep, 'C19', cands)
    rand_part(rep, cands, timeout)
    sqrti_part(rep, cands, timeout)
    rep.assumptions += ['rand: the WyRand generator/thread-local seed is an environment stub returning an arbitrary u64 (only the range arithmetic is checked)',
                        'sqrti: z3 floating-point theory stands for IEEE-754 binary64 sqrt/conversions; exact-integer-root claim only below the stated bound (larger arguments: z3 does not decide within the cap)',
                        'bpf_trace_printf (stdout I/O, f64::log) is not decided by this check: no SMT counterpart for log; that clause of the statement is outside the claim',
                        'memfrob/strcmp: buffers up to the Kani bounds (10/6 bytes quick); pointer preconditions as in the harness']
    rep.bounds.update(dict(kani='see evidence.kani (unwind per harness)', rand='all min, max, generator outputs (64-bit symbolic), dev and release profiles'))
    return rep.finish(cands, replay_c19)


def replay(path):
    d = json.load(open(path)); print(json.dumps(d, indent=1)); return 0
