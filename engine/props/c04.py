"""C04 -- Cranelift-compiled code computes the same result as the interpreter; local calls are refused."""
import json
import common, spec, clifcheck, jitwhole, ref
from ref import insn
from common import Report
from driver import Driver

CLIF_QUICK_PAIRS = {(0, 1), (3, 4), (2, 2), (10, 4), (1, 10), (9, 5)}
CLIF_THOROUGH_PAIRS = CLIF_QUICK_PAIRS | {(1, 0), (0, 0), (9, 9), (5, 10), (10, 0), (10, 9), (4, 3), (6, 7), (7, 6), (8, 1), (1, 8), (2, 3), (3, 2), (0, 9), (9, 0), (5, 5), (0, 10), (7, 2)}


def items_for(tier, kinds=None):
    its = clifcheck.f1_items(tier, kinds)
    if tier == 'quick':      # the translation does not depend on machine register classes: fewer register pairs than for the x86 JIT
        its = [it for it in its if (it['inst'][1], it['inst'][2]) in CLIF_QUICK_PAIRS or (it['inst'][2] == 0 and it['inst'][1] in (0, 3, 2, 9, 10)) or spec.classify(it['inst'][0])[0] in ('call', 'ja', 'ldabs')]
    else:
        # thorough: the CLIF translation is uniform in the register numbers (registers are SSA variables indexed by number), so all 110 pairs x all
        # classes (37,767 programs, > 1 h) buys nothing over a 24-pair cover of {same register, r0, r10 as source / store base, adjacent, far apart}
        its = [it for it in its if (it['inst'][1], it['inst'][2]) in CLIF_THOROUGH_PAIRS or (it['inst'][2] == 0 and it['inst'][1] in (0, 2, 3, 9, 10)) or spec.classify(it['inst'][0])[0] in ('call', 'ja', 'ldabs')]
    return its


def local_call_family(rep, cands):
    """cranelift_compile must refuse every program containing an eBPF-to-eBPF call (enumerated natively: displacement x helper set)"""
    d = Driver.get('dev', features=('std', 'cranelift'))
    n = 0
    for disp in (0, 1, 2, -1, 5):
        for reg in ((), ((disp & 0xffffffff, 'h1'),), ((1, 'h1'), (disp & 0xffffffff, 'h2'))):
            if disp >= 0: prog = insn(0xb7, 0) + insn(0x85, 0, 1, 0, disp) + insn(0x95) + insn(0xb7, 0, 0, 0, 7) * (disp + 1) + insn(0x95)
            else: prog = insn(0x05, 0, 0, 1) + insn(0x95) + insn(0xb7, 0) + insn(0x85, 0, 1, 0, -3) + insn(0x95)
            ok, why = ref.wf(prog)
            if not ok: rep.machinery_errors.append(f'local-call family: ill-formed test program ({why})'); continue
            r = d.request(dict(op='compile', vm='mbuff', prog=prog.hex(), engine='cranelift', helpers=[list(h) for h in reg]))
            rep.obligations += 1; n += 1
            if r.get('status') == 'err' and 'compile' in r.get('msg', ''): rep.discharged += 1
            else:
                cands.append(dict(role='clif/call-local/not-refused', detail=f'cranelift_compile returned {r.get("status")} {r.get("msg", "")} for a program with a local call (disp {disp}, helpers {[h[0] for h in reg]})',
                                  model=None, prog=prog.hex(), friendly=True))
    rep.extra['local_call_programs'] = n


def run():
    rep = Report('C04', 'translation_validation', '5/C04')
    t = common.tier(); timeout = 20000 if t == 'quick' else 120000
    common.load_mir('std')
    items = items_for(t)
    items += [dict(name=n, prog=p.hex(), vm='mbuff', min_mbuff=32, min_mem=8, role='clif-program') for n, p in jitwhole.fam_F2()]
    # a back edge to the very first instruction (r4 is zero at entry under the interpreter and in the CLIF variables)
    items.append(dict(name='loop-to-first-instruction', prog=(insn(0x07, 4, 0, 0, 1) + insn(0xa5, 4, 0, -2, 3) + insn(0xbf, 0, 4) + insn(0x95)).hex(), vm='mbuff', min_mbuff=8, min_mem=1, role='clif-program'))
    out, cands = clifcheck.run_items(items, ('C04',), timeout)
    rep.merge_counts(out)
    for s in out.get('stubs', []): rep.assumptions.append('stub: ' + s)
    local_call_family(rep, cands)
    rep.extra['program_instances'] = len(items)
    rep.assumptions += [
        'oracle: the MIR of interpreter::execute_program executed symbolically on the same concrete program with symbolic packet/metadata contents, lengths and addresses',
        'what is validated is rbpf\'s translation eBPF -> Cranelift IR (text captured by hook H2); Cranelift\'s lowering CLIF -> machine code, register allocation and ABI are trusted',
        'distinct buffers (program, packet, metadata, stack slot) do not overlap; an empty slice\'s pointer does not point into another buffer',
        'local-call refusal: enumerated natively (cranelift_compile on a family of programs), not solver-decided']
    rep.bounds = dict(instances=len(items), operand_values='all (symbolic packet/metadata bytes feed every register)', immediates='code-derived classes', per_query_timeout_ms=timeout)
    return rep.finish(cands, lambda c: clifcheck.replay(c) if c.get('model') is not None or c.get('whole') else (True, 'native compile result'))


def replay(path):
    d = json.load(open(path)); print(json.dumps(d, indent=1)); return 0
