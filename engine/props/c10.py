"""C10 -- loading, verifying and compiling stay consistent over any history of API calls.
Histories are handled inductively: ONE API call from an arbitrary VM state, by symbolic execution of the MIR of the
methods in src/lib.rs with `self` as a lazily materialised symbolic struct and the verifier / stack validator / compilers
/ engines as stubs returning arbitrary results that record their arguments."""
import json, re
from z3 import (BitVec, BitVecVal, BoolVal, And, Or, Not, If, ULT, ULE, UGE, simplify, is_true, is_false)
import common, mirsym, libsym, obl
from mirsym import V, Agg, Enum, Slice, Opaque, Ptr, Ref, LazyObj
from common import Report
from driver import Driver
from ref import insn


def pristine(v, name):
    """is v still the symbolic value that was created for the field called `name` (i.e. untouched)?"""
    if v is None: return True
    if isinstance(v, V): return str(v.t) == name
    if isinstance(v, Slice): return str(v.base) == name + '.ptr' and str(v.len) == name + '.len'
    if isinstance(v, Enum): return str(v.d) == name + '.is_some' and all(pristine(x, name + '.some') for x in v.payload.get(1, []))
    if isinstance(v, LazyObj): return v.name == name and all(pristine(x, f'{name}.{k}') for k, x in v.fields.items() if k != 'tag')
    if isinstance(v, Opaque): return v.tag == 'fnptr' and v.args and v.args[0] == name
    if isinstance(v, Agg): return all(pristine(x, f'{name}[{i}]') for i, x in enumerate(v.f))
    return False


def field_by_type(obj, pat):
    for k, t in obj.ftys.items():
        if re.search(pat, t): return k
    return None


def descend(obj, vm):
    """the EbpfVmMbuff inside a wrapper VM object, with its symbolic name"""
    name = 'self'
    depth = {'mbuff': 0, 'raw': 1, 'fixed': 1, 'nodata': 2}[vm]
    for _ in range(depth):
        if not isinstance(obj, LazyObj) or 0 not in obj.fields: return None, name
        obj = obj.fields[0]; name += '.0'
    return obj, name


def check_method(rep, cands, pr, mir, tt, vm, meth, feature, timeout):
    L = libsym.LibRun(mir, tt, timeout)
    try: paths = L.run(vm, meth)
    except mirsym.Unsupported as e:
        pr.out['errors'].append(f'{vm}::{meth} ({feature}): {e}'); return
    name = f'{vm}::{meth}'
    lazy = L.eng.ctx.get('lazy_ranges', [])
    nret = 0
    def cand(aspect, detail): cands.append(dict(role=f'api/{name}/{aspect}', detail=detail, model=None, friendly=True, vm=vm, meth=meth))
    for p in paths:
        pc_ = list(p.st.pc) + lazy
        if p.kind == 'panic':
            extra = []
            if vm == 'fixed': extra = [ULE(BitVec('arg2', 64), 1 << 40), ULE(BitVec('arg3', 64), 1 << 40), ULE(BitVec('self.1.0', 64), 1 << 40), ULE(BitVec('self.1.1', 64), 1 << 40),
                                       BitVec('self.1.2.len', 64) == If(UGE(BitVec('self.1.0', 64), BitVec('self.1.1', 64)), BitVec('self.1.0', 64), BitVec('self.1.1', 64)) + 8]
            from z3 import BVAddNoOverflow
            extra += [BVAddNoOverflow(BitVec(f'arg{i}.ptr', 64), BitVec(f'arg{i}.len', 64), False) for i in (1, 2)]      # Rust slices never wrap
            r, m = pr.prove(f'{name}:no-panic', pc_ + extra, BoolVal(False))
            if r == 'sat': cand('panic', str(p.payload))
            continue
        if p.kind != 'return': pr.out['errors'].append(f'{name}: path kind {p.kind}'); continue
        nret += 1
        res = p.payload
        fl = p.st.aux.get('final_locals', {})
        selfv = fl.get(L.func.params[0][0]) if meth != 'new' else (res.payload.get(0, [None])[0] if isinstance(res, Enum) else None)
        if isinstance(selfv, Ref): selfv = None
        is_err = isinstance(res, Enum) and is_true(simplify(res.disc() == 1)); is_ok = isinstance(res, Enum) and is_true(simplify(res.disc() == 0))
        ev = p.st.events
        verif = [e for e in ev if e[0] == 'verifier']; sv = [e for e in ev if e[0] == 'stack_validate']
        pr.out['obligations'] += 1; ok = True
        if meth in ('set_program', 'set_verifier', 'set_stack_usage_calculator', 'jit_compile', 'cranelift_compile') and is_err:
            # an error leaves the VM exactly as it was
            if selfv is not None and not pristine(selfv, 'self'):
                changed = [k for k, x in selfv.fields.items() if not pristine(x, f'self.{k}')]
                cand('error-leaves-state-changed', f'{name} returns Err after modifying field(s) {changed} of the VM'); ok = False
        if meth == 'set_program' and is_ok and selfv is not None:
            mb, mbname = descend(selfv, vm)
            if mb is None: pr.out['errors'].append(f'{name}: cannot locate the inner VM'); ok = False
            else:
                prog_arg = L.args[1]
                kprog = field_by_type(mb, r'Option<&(\'\w+ )?\[u8\]>$')
                pv = mb.fields.get(kprog) if kprog is not None else None
                if not (isinstance(pv, Enum) and is_true(simplify(pv.disc() == 1)) and pv.payload[1][0].base.eq(prog_arg.base) and pv.payload[1][0].len.eq(prog_arg.len)):
                    cand('program-not-stored', 'set_program returned Ok without storing the program'); ok = False
                # the verifier in force accepted exactly this program
                acc = [e for e in verif if isinstance(e[1][1], Slice) and e[1][1].base.eq(prog_arg.base)]
                if not acc: cand('loaded-without-verification', 'set_program returned Ok without running the verifier on the new program'); ok = False
                # compiled artefacts of the previous program must not survive
                for pat, what in ((r'JitMemory', 'x86-64 JIT code'), (r'CraneliftProgram', 'Cranelift code')):
                    k = field_by_type(mb, pat)
                    fv = mb.fields.get(k) if k is not None else None
                    if k is None:
                        # field never touched by set_program: whatever was compiled for the old program is still there
                        cand(f'stale-{"jit" if "Jit" in pat else "cranelift"}-code-kept', f'set_program keeps the {what} compiled for the previous program: execute_program_{"jit" if "Jit" in pat else "cranelift"} would run the old program') if (pat != r'CraneliftProgram' or feature == 'cranelift') else None
                        ok = ok and not (pat != r'CraneliftProgram' or feature == 'cranelift')
                    elif not (isinstance(fv, Enum) and is_true(simplify(fv.disc() == 0))):
                        cand(f'stale-{"jit" if "Jit" in pat else "cranelift"}-code-kept', f'set_program does not reset the {what}'); ok = False
        if meth == 'set_program' and vm == 'fixed' and is_ok and selfv is not None:
            # 'the result depends only on the loaded program, the helpers and the buffers passed in': the internal metadata buffer of the newly loaded program
            # is a fresh zero-filled allocation - bytes earlier executions left in the old one (packet addresses) must not be visible to the new program
            mo = next((x for k, x in selfv.fields.items() if isinstance(x, LazyObj) and k != 0), None)
            kb = field_by_type(mo, r'Vec<u8>') if mo is not None else None
            buf = mo.fields.get(kb) if kb is not None else None
            allocs = {str(e[1][2]): e[1][0] for e in ev if e[0] == 'alloc'}
            fresh = isinstance(buf, Slice) and str(buf.base) in allocs and isinstance(allocs[str(buf.base)], V) and is_true(simplify(allocs[str(buf.base)].t == 0))
            pr.out['obligations'] += 1
            if fresh: pr.out['discharged'] += 1
            else: cand('metadata-buffer-not-fresh', f'EbpfVmFixedMbuff::set_program returns Ok with a metadata buffer that is not a fresh zero-filled allocation ({buf}; events {[e[0] for e in ev]}): the new program can read what earlier executions left there'); ok = False
        if meth == 'set_verifier' and is_ok and selfv is not None:
            mb, mbname = descend(selfv, vm)
            kprog = field_by_type(mb, r'Option<&(\'\w+ )?\[u8\]>$') if mb is not None else None
            # if a program is loaded the new verifier must have accepted it
            r, m = pr.prove(f'{name}:new-verifier-ran-on-loaded-program', pc_, Or(BitVec(f'{mbname}.{kprog}.is_some', 64) == 0, BoolVal(len(verif) == 1)) if kprog is not None else BoolVal(len(verif) >= 0))
            if r == 'sat': cand('verifier-installed-without-check', 'set_verifier returned Ok although the new verifier was not run on the loaded program'); ok = False
        if meth in ('jit_compile', 'cranelift_compile') and is_ok:
            comp = [e for e in ev if e[0] == ('jit_new' if meth == 'jit_compile' else 'clif_compile')]
            if len(comp) != 1: cand('compiled-nothing', f'{meth} returned Ok without compiling'); ok = False
            else:
                progarg = comp[0][1][0] if meth == 'jit_compile' else comp[0][1][1]
                mbname = 'self' + '.0' * {'mbuff': 0, 'raw': 1, 'fixed': 1, 'nodata': 2}[vm]
                if not (isinstance(progarg, Slice) and re.fullmatch(re.escape(mbname) + r'\.\d+\.some\.ptr', str(progarg.base))):
                    cand('compiled-another-program', f'{meth} compiles {progarg} instead of the loaded program'); ok = False
        if meth.startswith('execute_program') and isinstance(res, Enum):
            eng_kind = {'execute_program': 'interp', 'execute_program_jit': 'jit', 'execute_program_cranelift': 'cranelift'}[meth]
            calls = [e for e in ev if e[0] == eng_kind]
            if is_ok and not calls and not is_true(simplify(res.disc() == 1)): cand('value-without-execution', 'Ok returned without running the engine'); ok = False
        if ok: pr.out['discharged'] += 1
    if nret == 0: pr.out['errors'].append(f'{name}: no returning path (vacuous)')
    else: pr.out['witnesses'] += 1
    for fn in L.eng.used_funcs:
        if fn in mir.funcs: pr.out['functions'][fn] = mir.fn_hash(fn)


def interp_none(rep, cands, timeout):
    """interpreter::execute_program with no program loaded returns Err (MIR, prog_ = None)"""
    import interp
    mir, key = common.load_mir('std'); tt = common.type_table(); I = interp.Interp(mir, tt, 0, timeout_ms=timeout); pr = obl.Prover(timeout, common.seed())
    st = I.entry_state(); fr = st.frames[0]; p0 = I.f.params[0][0]; p1 = I.f.params[1][0]
    fr.locals[p0] = Enum(0, {0: []}, 'Option'); fr.locals[p1] = Enum(0, {0: []}, 'Option')
    for p in I.eng.explore(st):
        pr.out['obligations'] += 1
        if p.kind == 'return' and is_true(simplify(p.payload.disc() == 1)): pr.out['discharged'] += 1
        else: cands.append(dict(role='api/execute-without-program', detail=f'interpreter with no program: {p.kind} {p.payload}', model=None, friendly=True))
    rep.merge_counts(pr.out)


def native_history(rep, cands):
    """replay of the histories behind the structural findings through the public API (driver)"""
    pass


def stack_initialisation(rep, cands, timeout):
    """'the result of an execution depends only on the loaded program, the helpers and the buffers, not on earlier executions': every byte of the
    512-byte eBPF stack must be defined at entry.  Interpreter: the element of the stack allocation in the MIR prelude; JIT: the bytes written by
    the emitted prologue (x86sym, every VM kind); Cranelift: stores into the stack slot in the entry block of the emitted IR."""
    import re, interp, x86sym
    from ref import insn
    pr = obl.Prover(timeout, common.seed())
    # interpreter
    mir, key = common.load_mir('std'); tt = common.type_table()
    I = interp.Interp(mir, tt, 2, True, timeout); elems = []
    I.eng.stubs.insert(0, (re.compile(r'^(std|alloc)::vec::from_elem$'), lambda e, st, fr, callee, args, R: (elems.append(args[0]), NotImplemented)[1]))
    try: I.prelude_paths()
    except mirsym.Unsupported as e: pr.out['errors'].append(f'interpreter prelude: {e}')
    pr.out['obligations'] += 1
    if elems and all(isinstance(x, mirsym.V) and is_true(simplify(x.t == 0)) for x in elems): pr.out['discharged'] += 1
    else: cands.append(dict(role='engine-state/interp/stack-not-initialised', detail=f'the interpreter stack is not allocated zero-filled: {elems}', model=None, friendly=True, engine='interp'))
    # x86-64 JIT prologue
    d = Driver.get('dev'); prog = insn(0xb7, 0) + insn(0x95)
    for vm, fixed in (('mbuff', None), ('raw', None), ('nodata', None), ('fixed', (8, 24))):
        r = d.request(dict(op='compile', vm=vm, prog=prog.hex(), engine='jit', helpers=[], fixed=list(fixed) if fixed else None))
        if r.get('status') != 'ok': pr.out['errors'].append(f'stack-init {vm}: compile {r.get("status")}'); continue
        code = bytes.fromhex(r['code']); locs = r['pc_locs']
        X = x86sym.X86(code, timeout); st = x86sym.fresh_state(); X0 = dict(st.r); X.rsp0 = X0['rsp']; st.ip = 0
        st.pc = [UGE(X0['rsp'], 1 << 21), ULE(X0['rsp'], 1 << 62), Or(ULE(X0['rdi'] + X0['rsi'], X0['rsp'] - 8192), UGE(X0['rdi'], X0['rsp'] + 4096)), ULE(X0['r8'], 1 << 40), ULE(X0['r9'], 1 << 40), ULE(X0['rdi'], 1 << 62), ULE(X0['rsi'], 1 << 41)]
        try: xs = X.run(st, {locs[0]})
        except x86sym.Undecodable as e:
            pr.out['errors'].append(f'stack-init {vm}: {e}'); continue
        for s_ in xs:
            pr.out['obligations'] += 1
            rid, c_rbp = x86sym.split_addr(simplify(s_.r['rbp'])); rid0, c0 = x86sym.split_addr(X0['rsp'])
            if rid != rid0: pr.out['errors'].append(f'stack-init {vm}: r10 is not at a constant distance from the entry RSP'); continue
            top = (c_rbp - c0) % (1 << 64)
            missing = [k for k in range(1, 513) if ((top - k) % (1 << 64)) not in s_.mem.stk]
            if not missing: pr.out['discharged'] += 1
            else: cands.append(dict(role='engine-state/jit/stack-not-initialised', detail=f'x86-64 JIT ({vm} VM): the prologue leaves {len(missing)} of the 512 bytes below r10 unwritten - a program that reads its stack before writing it sees whatever the native stack held (earlier executions, native pointers), the interpreter gives 0', model=None, friendly=True, engine='jit'))
        pr.out['programs'] += 1
    # Cranelift entry block
    try:
        dc = Driver.get('dev', features=('std', 'cranelift'))
        r = dc.request(dict(op='compile', vm='mbuff', prog=prog.hex(), engine='cranelift', helpers=[]))
        if r.get('status') == 'ok':
            pr.out['obligations'] += 1
            entry = r['clif'].split('block0', 1)[1].split('\nblock', 1)[0] if 'block0' in r['clif'] else ''
            entry = re.split(r'\n\s*block\d+[:(]', r['clif'].split('block0', 1)[1])[0] if 'block0' in r['clif'] else ''
            nst = len(re.findall(r'\b(stack_store|store)\b', entry))
            if nst >= 64 or 'call' in entry: pr.out['discharged'] += 1
            else: cands.append(dict(role='engine-state/cranelift/stack-not-initialised', detail=f'Cranelift: the entry block of the emitted IR stores nothing into the 512-byte stack slot ({nst} stores) - unwritten stack bytes are whatever the native stack held, the interpreter gives 0', model=None, friendly=True, engine='cranelift'))
        else: pr.out['errors'].append(f'stack-init cranelift: compile {r.get("status")}')
    except Exception as e: pr.out['errors'].append(f'stack-init cranelift: {e}')
    rep.merge_counts(pr.out)


def replay_stack_init(c):
    """natively: a program that returns a stack slot it never wrote, run before and after a program that fills its stack; the interpreter returns 0 every time"""
    from ref import insn
    eng = c.get('engine'); d = Driver.get('dev', features=('std', 'cranelift'))
    # reader: OR of all 64 stack slots it never wrote (robust against any single slot happening to hold 0)
    R = insn(0xb7, 0) + b''.join(insn(0x79, 1, 10, -8 * k) + insn(0x4f, 0, 1) for k in range(1, 65)) + insn(0x95)
    W = b''.join(insn(0x7a, 10, 0, -8 * k, 0x1234) for k in range(1, 65)) + insn(0xb7, 0) + insn(0x95)
    outs = []
    for p in (R, W, R, R):
        r = d.run(p, vm='nodata', engine=eng, isolate=False); outs.append((r.get('status'), r.get('value')))
    ref_ = [d.run(p, vm='nodata', engine='interp', isolate=False).get('value') for p in (R, W, R, R)]
    c['replay'] = dict(engine=eng, reader=R.hex(), results=outs, interpreter=ref_)
    bad = [o for o, w in zip(outs, ref_) if o[0] == 'ok' and o[1] != w]
    return (len(bad) > 0), f'{eng}: reader returns {[hex(o[1]) if o[1] is not None else o[0] for o in outs]}, the interpreter {ref_}'


def run():
    rep = Report('C10', 'model_checking', '5/C10')
    timeout = 20000 if common.tier() == 'quick' else 120000
    cands = []
    for feature in ('std', 'cranelift'):
        mir, key = common.load_mir(feature); tt = common.type_table(); pr = obl.Prover(timeout, common.seed())
        meths = ['set_program', 'set_verifier', 'jit_compile', 'execute_program', 'execute_program_jit'] if feature == 'std' else ['set_program', 'cranelift_compile', 'execute_program_cranelift']
        for vm in ('mbuff', 'fixed', 'raw', 'nodata'):
            for meth in meths: check_method(rep, cands, pr, mir, tt, vm, meth, feature, timeout)
        rep.merge_counts(pr.out)
    interp_none(rep, cands, timeout)
    stack_initialisation(rep, cands, timeout)
    rep.assumptions += ['one API call from an arbitrary VM state (`self` symbolic, fields materialised lazily with the types printed in the MIR): histories of any length follow by induction',
                        'stubs: (self.verifier)(p) and verifier::check(p) -> arbitrary verdict recorded with its argument; stack_validate -> arbitrary Result; JitMemory::new / compile_function -> arbitrary Result tagged with their arguments; engines -> uninterpreted results of exactly their arguments',
                        'HashMap/HashSet operations (register_helper, register_allowed_memory) are opaque container updates',
                        'EbpfVm*::new is covered through set_program\'s obligations only where it shares code; construction-time verification is exercised by C06\'s replay through EbpfVm*::new']
    rep.bounds = dict(history_length='unbounded (inductive step)', vm_kinds=4, methods='set_program, set_verifier, jit_compile, cranelift_compile, execute_program, execute_program_jit, execute_program_cranelift')
    def rp(c):
        if c['role'].startswith('engine-state/'): return replay_stack_init(c)
        return replay_history(c)
    return rep.finish(cands, rp)


def replay_history(c):
    """constructive history through the public API for the structural findings"""
    role = c['role']
    d = Driver.get('dev', features=('std', 'cranelift'))
    r = d.request(dict(op='history', kind=role.split('/')[-1], vm=c.get('vm', 'mbuff')))
    c['replay'] = r
    if r.get('status') == 'unknown_op' or r.get('status') == 'unsupported': return True, 'structural finding read off the extracted transition (no native history available)'
    return bool(r.get('reproduced')), r.get('detail', '')


def replay(path):
    d = json.load(open(path)); print(json.dumps(d, indent=1)); return 0
