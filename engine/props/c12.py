"""C12 -- compiling any verified program returns Ok or Err and never panics or overruns.
Part A (solver): the x86-64 JIT's loop body (MIR of JitCompiler::jit_compile with emit_* inlined), one iteration from an
arbitrary compiler state under the real verifier's acceptance formula: no panic path, and the sizing pass and the
emitting pass advance the code offset identically (so the second pass writes exactly the bytes the first pass counted).
Part B (bounded complement, native): verifier-accepted program families compiled by both compilers in a child process:
any panic/abort is a violation; compiling twice gives identical code."""
import json, traceback
from z3 import (BitVec, BitVecVal, Bool, BoolVal, And, Or, Not, If, ULT, ULE, UGE, Extract, ZeroExt, simplify, is_true, is_false)
import common, mirsym, spec, obl, ref, verif
from mirsym import V, Agg, Enum, Slice, Opaque, Ptr, Ref, LazyObj, Unsupported
from ref import insn, lddw
from common import Report
from driver import Driver


# ------------------------------------------------------------------------------------------ Part B: families
def families(tier):
    P = []
    F = insn(0xbf, 0, 0)                       # mov64 r0, r0
    EX = insn(0x95)
    # (i) every accepted opcode with boundary values in every field the verifier leaves free
    regs = [(0, 0), (9, 10), (1, 5)]
    offs = [0, 1, -2, 32767, -32768] if tier != 'quick' else [0, -32768, 32767]
    imms = [0, 1, -1, 0x7fffffff, -0x80000000]
    for opc in spec.VERIFIER_OK:
        k, i = spec.classify(opc)
        for (d, s) in regs:
            dd = d if d <= 9 or (opc & 7) in (2, 3) else 9
            for off in offs:
                for imm in (imms if tier != 'quick' else imms[:1] + imms[3:]):
                    if k == 'endian': imm = (16, 32, 64)[abs(imm) % 3]
                    if k == 'xadd': imm = 0
                    if k in ('ja', 'jcond'):
                        if off in (32767, -32768, -2): continue
                    if k == 'call':
                        if s > 1: s = 0
                        if s == 1: continue
                    body = insn(opc, dd, s, off if k not in ('ja', 'jcond') else 1, imm)
                    if k == 'lddw': body += insn(0, 0, 0, 0, imm)
                    prog = body + F + F + EX
                    hs = [[imm & 0xffffffff, 'h1']] if k == 'call' else []
                    P.append((f'{spec.opname(opc)}[d{dd},s{s},off{off},imm{imm}]', prog, hs))
    # (ii) control-flow shapes
    def shp(name, *ins): P.append((name, b''.join(ins), []))
    shp('back-edge-to-0', insn(0x07, 1, 0, 0, 1), insn(0xbf, 0, 1), insn(0xa5, 1, 0, -3, 3), EX)
    shp('jump-to-last', insn(0x05, 0, 0, 1), F, EX)
    shp('dead-code', insn(0xb7, 0), EX, insn(0xb7, 0, 0, 0, 9), EX)
    shp('fallthrough-only-block', insn(0x15, 1, 0, 1, 0), insn(0xb7, 0, 0, 0, 1), insn(0xb7, 2, 0, 0, 2), EX)
    shp('two-jumps-same-target', insn(0x15, 1, 0, 2, 0), insn(0x15, 2, 0, 1, 0), F, EX)
    shp('jump-over-lddw', insn(0x05, 0, 0, 2), lddw(1, 0x1122334455667788), EX)
    shp('jump-to-lddw', insn(0x15, 1, 0, 1, 0), F, lddw(1, 5), EX)
    shp('nested-loops', insn(0xb7, 1, 0, 0, 2), insn(0xb7, 2, 0, 0, 2), insn(0x07, 2, 0, 0, -1), insn(0x55, 2, 0, -2, 0), insn(0x07, 1, 0, 0, -1), insn(0x55, 1, 0, -5, 0), EX)
    shp('exit-with-garbage-fields', insn(0xb7, 0), insn(0x95, 7, 3, -5, 77))
    shp('exit-with-positive-off', insn(0xb7, 0), insn(0x95, 0, 0, 9, 0))
    shp('ends-with-ja-back', insn(0xb7, 0), EX, insn(0x05, 0, 0, -2))
    shp('conditional-to-self-plus', insn(0x15, 1, 0, 0, 0), EX)
    shp('ja-0', insn(0x05, 0, 0, 0), EX)
    shp('local-call', insn(0x85, 0, 1, 0, 1), EX, insn(0xb7, 0), EX)
    shp('local-call-backward', insn(0x05, 0, 0, 2), insn(0xb7, 0), EX, insn(0x85, 0, 1, 0, -3), EX)
    shp('many-exits', *([insn(0x15, 1, 0, 1, 0), EX] * 20 + [EX]))
    # (iii) sizes
    for n in ([1, 2, 511, 65535, 65536, 65537] if tier == 'quick' else [1, 2, 511, 4095, 65535, 65536, 65537, 131072, 999996]):      # + 4 instructions stays within PROG_MAX_INSNS
        P.append((f'size-{n + 1}', F * n + EX, []))
        if n >= 65535: P.append((f'size-{n + 3}-div-mod-at-end', insn(0xb7, 1, 0, 0, 7) + F * n + insn(0x3f, 1, 2) + insn(0x9f, 1, 2) + EX, []))
    return P


def part_b(rep, cands):
    n = 0
    for feats, eng in ((('std',), 'jit'), (('std', 'cranelift'), 'cranelift')):
        d = Driver.get('dev', features=feats)
        for name, prog, hs in families(common.tier()):
            ok, why = ref.wf(prog)
            if not ok: rep.machinery_errors.append(f'family program {name} is ill-formed: {why}'); continue
            if eng == 'cranelift' and (b'\x85\x10' in prog or len(prog) > 8 * 140000): 
                if 'local-call' in name: pass
                elif len(prog) > 8 * 140000: continue        # Cranelift on ~1M instructions takes minutes and GBs: outside the quick/thorough budget (stated)
            req = dict(op='compile', vm='mbuff', prog=prog.hex(), engine=eng, helpers=hs, twice=True, isolate=True)
            r = d.request(req); n += 1; rep.obligations += 1
            st = r.get('status')
            if st in ('ok', 'err'):
                if r.get('repeatable') is False: cands.append(dict(role=f'{eng}-compile/not-repeatable', detail=f'{name}: two compilations of the same program differ', model=None, prog=prog.hex()[:2000], friendly=True))
                else: rep.discharged += 1
            else:
                short = name.split('[')[0]
                cands.append(dict(role=f'{eng}-compile/{st}:{short}', detail=f'{eng} compilation of the accepted program {name} ({len(prog)//8} insns): {st} {str(r.get("msg", r.get("sig", "")))[:200]}', model=None,
                                  prog=prog.hex() if len(prog) < 4000 else None, friendly=True))
    rep.extra['native_compilations'] = n


def run():
    rep = Report('C12', 'model_checking', '5/C12')
    timeout = 20000 if common.tier() == 'quick' else 120000
    cands = []
    try:
        import props.c12a as c12a
        c12a.part_a(rep, cands, timeout)
    except ImportError:
        rep.assumptions.append('Part A (solver obligations on the JIT loop body) not available in this build of the framework')
    part_b(rep, cands)
    rep.assumptions += ['Part B is a bounded native complement: enumerated families of verifier-accepted programs (every accepted opcode x boundary field values, 16 control-flow shapes, sizes around 2^16 and up to the limit) compiled in a child process',
                        'whether Cranelift\'s own define_function can fail for other reasons is outside reach (Cranelift internals); Cranelift on programs above 140,000 instructions is not exercised (minutes, GBs)',
                        'allocation failure is outside the claim']
    rep.bounds = dict(part_a='one loop iteration of jit_compile from an arbitrary compiler state, all field values', part_b='families as listed')
    return rep.finish(cands, replay_c12)


_SWEEPS = {}


def targeted_sweep(d, pre):
    """programs around `pre` whose *measured* code size lands on and just below page boundaries (filler instruction sizes are measured by
    compiling, then counts are solved for), on all four VM kinds, compiled in a child process; returns (vm, prog, response) of the first crash"""
    key = pre.hex()
    if key in _SWEEPS: return _SWEEPS[key]
    EX = insn(0x95); tried = 0; hit = None
    import math
    fillers = [insn(0xb4, 0, 0, 0, 1), insn(0xbf, 1, 2), insn(0x95), lddw(1, 5), insn(0x84, 1), insn(0x07, 1, 0, 0, 1000), insn(0xb7, 6, 0, 0, 1), insn(0x0f, 8, 9)]
    def comp(vm, prog):
        return d.request(dict(op='compile', vm=vm, prog=prog.hex(), engine='jit', helpers=[], twice=False, isolate=True))
    for vm in ('fixed', 'mbuff', 'raw', 'nodata'):
        r0 = comp(vm, pre + EX); tried += 1
        if r0.get('status') not in ('ok', 'err'): hit = (vm, pre + EX, r0); break
        if r0.get('status') != 'ok' or not r0.get('code_len'): continue
        sizes = []
        for f in fillers:       # measured size of each filler instruction in this position
            r = comp(vm, pre + f + EX); tried += 1
            if r.get('status') not in ('ok', 'err'): hit = (vm, pre + f + EX, r); break
            if r.get('status') == 'ok' and r.get('code_len', 0) > r0['code_len']: sizes.append((r['code_len'] - r0['code_len'], f))
        if hit: break
        pair = next(((x, y) for x in sizes for y in sizes if math.gcd(x[0], y[0]) == 1), None)
        if pair is None: continue
        (a, F1), (b, F3) = pair; r1 = r3 = r0
        s0 = r0['code_len']
        for page in (1, 2):
            for delta in list(range(0, 41)) + list(range(-1, -41, -1)):      # on / below the boundary, and above it (a sizing pass that under-counts)
                T = 4096 * page - delta
                for j in range(0, a):
                    rest = T - s0 - b * j
                    if rest >= 0 and rest % a == 0:
                        prog = pre + F1 * (rest // a) + F3 * j + EX
                        if not ref.wf(prog)[0]: break
                        r = comp(vm, prog); tried += 1
                        if r.get('status') not in ('ok', 'err'): hit = (vm, prog, r)
                        break
                if hit: break
            if hit: break
        if hit: break
    if hit is None and not pre:
        # density family: the instructions with the largest *measured* code size, repeated N = 1..320 times (a buffer sized from the instruction
        # count rather than from the emitted bytes overflows on the densest programs, far from any page boundary of the filler programs above)
        heavy = [insn(0x3f, 6, 7), insn(0x9f, 6, 7), insn(0x3c, 4, 5), insn(0x9c, 8, 9), insn(0x2f, 6, 7), insn(0x37, 6, 0, 0, 3), insn(0x97, 7, 0, 0, 3),
                 insn(0x85, 0, 1, 0, 0), lddw(9, 0x1122334455667788), insn(0x7a, 10, 0, -8, 0x12345678), insn(0xdb, 10, 9, -8), insn(0xdc, 9, 0, 0, 64),
                 insn(0x6f, 8, 9), insn(0xcf, 8, 9), insn(0x7b, 10, 9, -200), insn(0x79, 9, 10, -200), insn(0x2d, 8, 9, 0), insn(0x85, 0, 0, 0, 1)]
        vm = 'mbuff'; r0 = comp(vm, EX); tried += 1; meas = []
        for h in heavy:
            if not ref.wf(h + EX)[0]: continue
            r = comp(vm, h + EX); tried += 1
            if r.get('status') not in ('ok', 'err'): hit = (vm, h + EX, r); break
            if r.get('status') == 'ok' and r0.get('status') == 'ok': meas.append((r['code_len'] - r0['code_len'], h))
        meas.sort(key=lambda x: -x[0])
        for sz, h in meas[:4]:
            if hit: break
            for N in range(2, 321):
                prog = h * N + EX
                if not ref.wf(prog)[0]: break
                r = comp(vm, prog); tried += 1
                if r.get('status') not in ('ok', 'err'): hit = (vm, prog, r); break
    _SWEEPS[key] = (hit, tried)
    return hit, tried


def replay_c12(c):
    """part B candidates are native observations already.  Part A candidates (a solver counterexample about the two passes /
    the buffer) are confirmed by a targeted native sweep: code sizes on and just below page boundaries, first with filler only,
    then around the instruction of the counterexample; a panic/abort confirms."""
    role = c['role']
    if not role.startswith(('jit-compile/', 'jit-new/')): return True, 'observed natively'
    d = Driver.get('dev', features=('std',)); m = c.get('model') or {}
    pres = [b'']
    if m.get('opc') is not None:
        opc = m['opc']; k, _ = spec.classify(opc); rb = m.get('regbyte', 0); off = m.get('off', 0); imm = m.get('imm', 0)
        off = off - 0x10000 if off >= 0x8000 else off
        one = insn(opc, rb & 15, rb >> 4, 0 if k in ('ja', 'jcond') else off, imm if imm < 2**31 else imm - 2**32)
        if k == 'lddw': one += insn(0, 0, 0, 0, 0)
        if k not in ('exit', 'call') and ref.wf(one * 8 + insn(0x95))[0]: pres.append(one * 8)
    total = 0
    for pre in pres:
        hit, tried = targeted_sweep(d, pre); total += tried
        if hit:
            vm, prog, r = hit
            c['replay'] = dict(vm=vm, prog=prog.hex() if len(prog) < 4000 else f'{pre.hex()} + filler ({len(prog)//8} instructions)', result=r)
            c['detail'] = (c.get('detail') or '') + f' -- native: jit_compile of an accepted {len(prog)//8}-instruction program on the {vm} VM: {r.get("status")} {str(r.get("msg", ""))[:160]}'
            return True, f'targeted native sweep reproduced ({total} compilations)'
    return False, f'targeted native sweep of {total} compilations (code sizes within 40 bytes of two page boundaries, four VM kinds) and of the densest programs (the four largest-emitting instructions repeated 2..320 times) shows no panic'


def replay(path):
    d = json.load(open(path)); print(json.dumps(d, indent=1)); return 0
