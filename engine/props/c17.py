"""C17 -- instruction encoding and decoding are inverse, and all encoders agree.
Kani (CBMC) harnesses over the real functions for all field values (ebpf::Insn::to_array/to_vec, get_insn, to_insn_vec,
every insn_builder constructor), plus a mirsym/z3 obligation for get_insn at an unbounded symbolic instruction index."""
import json, time
from z3 import (BitVec, BitVecVal, BoolVal, Array, BitVecSort, Select, And, Or, Not, ULT, ULE, UGT, Extract, Concat, ZeroExt, simplify, is_true, BVAddNoOverflow)
import common, mirsym, obl, kani_run
from mirsym import Slice, V
from common import Report


def kani_part(rep, prefix, cands):
    t = common.tier()
    res = kani_run.run([prefix], t)
    rep.extra['kani'] = dict(wall_s=res.get('wall_s'), harnesses=[dict(name=h['name'], status=h['status'], seconds=round(h.get('seconds') or 0, 2), checks=h.get('checks_total'),
                                                                      covers=f"{h.get('covers_satisfied')}/{h.get('covers_total')}", unwind=h.get('unwind')) for h in res.get('harnesses', [])])
    if not res.get('harnesses'): rep.machinery_errors.append('kani: no harness ran: ' + str(res.get('error', ''))[:300])
    for h in res.get('harnesses', []):
        rep.obligations += h.get('checks_total') or 1
        if h['status'] == 'success':
            rep.discharged += h.get('checks_total') or 1; rep.nontrivial.add('kani:' + h['name']); rep.witnesses += h.get('covers_satisfied') or 0
            if len(rep.samples) < 6: rep.samples.append(f"kani harness {h['name']}: {h.get('checks_total')} checks SUCCESSFUL, covers {h.get('covers_satisfied')}/{h.get('covers_total')}, unwind {h.get('unwind')}")
        elif h['status'] == 'failure':
            rep.discharged += (h.get('checks_total') or 1) - (h.get('checks_failed') or 1)
            cands.append(dict(role=f"kani/{h['name'].split('::')[-1]}", detail='; '.join(h.get('failed_checks', [])[:4]), model=None, replay=dict(counterexample=h.get('counterexample')), friendly=True,
                              kani_failed=h.get('failed_checks', [])))
        else:
            rep.inconclusive.append(f"kani harness {h['name']}: {h['status']} {h.get('note', '')}")
    rep.programs += len(res.get('harnesses', []))
    return res


def index_obligation(rep, cands, timeout):
    """get_insn(prog, idx) for a symbolic, unbounded idx: decoded fields are the bytes at 8*idx.., panic iff (idx+1)*8 > len"""
    mir, key = common.load_mir('std'); tt = common.type_table()
    eng = mirsym.Engine(mir, tt, timeout); pr = obl.Prover(timeout, common.seed())
    f = mir.funcs['get_insn']
    base, ln, idx = BitVec('prog_base', 64), BitVec('prog_len', 64), BitVec('idx', 64)
    M = Array('M0', BitVecSort(64), BitVecSort(8))
    st = mirsym.State(); st.mem = M
    st.pc = [BVAddNoOverflow(base, ln, False), base != 0, ULE(base + ln, 1 << 63)]
    fr = mirsym.Frame(f); fr.tag = 'top'; st.frames.append(fr)
    fr.locals[f.params[0][0]] = Slice(base, ln); fr.locals[f.params[1][0]] = V(idx, 'usize')
    paths = eng.explore(st)
    byte = lambda k: Select(M, base + 8 * idx + k)
    fits = And(ULT(idx, (1 << 61) - 1), ULE((idx + 1) * 8, ln))
    for p in paths:
        pc_ = list(p.st.pc)
        if p.kind == 'panic':
            r, m = pr.prove(f'get_insn:panic-only-out-of-range:{p.payload[0][:30]}', pc_, Not(fits), sample='get_insn(prog, idx) panics only if (idx+1)*8 > len (idx unbounded)')
            if r == 'sat': cands.append(dict(role='mirsym/get_insn/panics-in-range', detail=str(p.payload), model=dict(idx=obl.mval(m, idx), len=obl.mval(m, ln)), friendly=True))
        elif p.kind == 'return':
            i = p.payload
            want = [byte(0), byte(1) & 15, Extract(7, 0, byte(1)) >> 4 if False else (byte(1) & 0xf0) >> 4 if False else simplify(ZeroExt(0, Extract(7, 4, byte(1)))), Concat(byte(3), byte(2)), Concat(byte(7), byte(6), byte(5), byte(4))]
            got = [x.t for x in i.f]
            names = ['opc', 'dst', 'src', 'off', 'imm']
            r, m = pr.prove('get_insn:in-range', pc_, fits, sample='get_insn returns only for (idx+1)*8 <= len')
            if r == 'sat': cands.append(dict(role='mirsym/get_insn/returns-out-of-range', detail='returned although the slot is outside the program', model=dict(idx=obl.mval(m, idx), len=obl.mval(m, ln)), friendly=True))
            for nm, g, w in zip(names, got, want):
                if nm == 'src': w = ZeroExt(4, Extract(7, 4, byte(1)))
                if nm == 'dst': w = ZeroExt(4, Extract(3, 0, byte(1)))
                r, m = pr.prove(f'get_insn:{nm}', pc_, g == w, sample=f'get_insn(prog, idx).{nm} = the encoded field at byte 8*idx (idx symbolic, any program length)')
                if r == 'sat': cands.append(dict(role=f'mirsym/get_insn/field-{nm}', detail=f'{nm} differs from the encoded bytes', model=dict(idx=obl.mval(m, idx), len=obl.mval(m, ln)), friendly=True))
        else:
            pr.out['errors'].append(f'get_insn: path kind {p.kind}')
    rets = [p for p in paths if p.kind == 'return']
    if rets: pr.witness('get_insn:return', list(rets[0].st.pc))
    else: pr.out['errors'].append('get_insn never returns (vacuous)')
    pr.out['functions'] = {n: mir.fn_hash(n) for n in eng.used_funcs if n in mir.funcs}
    rep.merge_counts(pr.out)


def run():
    rep = Report('C17', 'proof', '5/C17')
    timeout = 20000 if common.tier() == 'quick' else 120000
    cands = []
    kani_part(rep, 'C17', cands)
    index_obligation(rep, cands, timeout)
    rep.assumptions += ['Kani 0.68 / CBMC 6.11 with unwinding assertions on (bounds per harness in evidence.kani); one harness per concrete instantiation',
                        'register numbers: the builder harnesses quantify over all u8 register values (a superset of 0-15)',
                        'builder == assembler is covered through the mnemonic table in C13 (same opcode constants)']
    rep.bounds = dict(kani='all field values; 4-slot (quick) / 8-slot (thorough) programs for the indexed round trip; unwind values per harness',
                      mirsym='instruction index and program length unbounded (symbolic 64-bit)')
    rep.extra['checker_cmd'] = 'cargo kani (engine/kani_run.py) + ./vcheck C17'
    def rp(c):
        return True, 'kani concrete playback: ' + str((c.get('replay') or {}).get('counterexample'))[:400] if c['role'].startswith('kani/') else 'solver model'
    return rep.finish(cands, rp)


def replay(path):
    d = json.load(open(path)); print(json.dumps(d, indent=1)); return 0
