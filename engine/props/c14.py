"""C14 -- the assembler is total: any text yields Ok or Err, never a panic (numeric closures, encode/insn, lddw tail)."""
import props.c13 as c13
def run(): return c13.run('C14')
def replay(path): return c13.replay(path)
