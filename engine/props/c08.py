"""C08 -- helper calls follow the documented contract in every engine (interpreter, x86-64 JIT, Cranelift)."""
import json
from z3 import BitVecVal
import common, icheck, spec, replaylib, interp, jitcheck, jitwhole, clifcheck, ref
from ref import insn, lddw
from common import Report
from driver import Driver

IDS = (0, 1, 0x7fffffff, 0x80000000, 0xffffffff)


def helper_programs():
    P = []
    ld = lambda r, off: insn(0x79, r, 1, off)
    args = [ld(2, 8), ld(3, 16), ld(4, 24), ld(5, 32), ld(6, 40)]
    for k in IDS:
        P.append((f'top-level-id{k:#x}', b''.join(args + [insn(0x85, 0, 0, 0, k), insn(0x0f, 0, 6), insn(0x95)]), [(k, 'h1')]))
    ld8 = lambda r, off: insn(0x79, r, 8, off)       # r1-r5 are undefined after a helper call: keep the buffer pointer in r8
    P.append(('two-calls', b''.join([insn(0xbf, 8, 1)] + args + [insn(0x85, 0, 0, 0, 1), insn(0xbf, 7, 0), ld8(1, 0), ld8(2, 8), ld8(3, 16), ld8(4, 24), ld8(5, 32), insn(0x85, 0, 0, 0, 2), insn(0xaf, 0, 7), insn(0x0f, 0, 6), insn(0x95)]), [(1, 'h1'), (2, 'h2')]))
    # helper calls inside local functions at depth 1, 2, 3
    for depth in (1, 2, 3):
        body = list(args) + [insn(0x85, 0, 1, 0, 2), insn(0x0f, 0, 6), insn(0x95)]
        for dd in range(depth - 1): body += [insn(0x85, 0, 1, 0, 1), insn(0x95)]
        body += [insn(0x85, 0, 0, 0, 3), insn(0x95)]
        P.append((f'in-local-function-depth{depth}', b''.join(body), [(3, 'h3')]))
    return P


def unknown_id_family(rep, cands):
    """calling an id that is not registered: compile-time error in both compilers (native enumeration)"""
    n = 0
    for feats, eng in ((('std',), 'jit'), (('std', 'cranelift'), 'cranelift')):
        d = Driver.get('dev', features=feats)
        for k in IDS:
            for reg in ((), (((k + 1) & 0xffffffff, 'h1'),)):
                prog = insn(0x85, 0, 0, 0, k) + insn(0x95)
                r = d.request(dict(op='compile', vm='mbuff', prog=prog.hex(), engine=eng, helpers=[list(h) for h in reg]))
                rep.obligations += 1; n += 1
                if r.get('status') == 'err' and 'compile' in r.get('msg', ''): rep.discharged += 1
                else: cands.append(dict(role=f'{eng}/call/unknown-helper-not-refused', detail=f'{eng} compile of a call to unregistered id {k:#x}: {r.get("status")} {r.get("msg", "")}', model=None, friendly=True))
    rep.extra['unknown_id_compilations'] = n


def run():
    rep = Report('C08', 'translation_validation', '5/C08')
    t = common.tier(); timeout = 20000 if t == 'quick' else 120000
    cands = []
    for profile in ('dev', 'release'):
        for r in icheck.run_sharded([0x85], ['C08'], profile, 1, timeout):
            rep.merge_counts(r['out']); cands += r['cands']
    # x86-64 JIT: per-instruction (register map / ABI / alignment) and whole programs (top level, several calls, inside local functions)
    common.load_mir('std'); Driver('dev').build()
    insts = [i for i in jitcheck.instances(t) if spec.classify(i[0])[0] == 'call']
    r = jitcheck.worker((insts, ('C03', 'C08'), timeout))
    rep.merge_counts(r['out']); cands += r['cands']
    import sys; sys.stderr.write('[c08] per-instruction done\n')
    # premise of the per-instruction result: the code emitted for a CALL does not depend on neighbouring instructions (else: context programs)
    import jitcontext
    o3, c3, notes = jitcontext.run([0x85], ('C03', 'C08'), timeout, 'jit-helper-call')
    rep.merge_counts(o3); cands += c3; rep.machinery_errors += notes
    items = [dict(name=n, prog=p.hex(), vm='mbuff', helpers=[list(h) for h in hs], min_mbuff=48, min_mem=1, role='jit-helper-call') for n, p, hs in helper_programs()]
    out, c2 = jitwhole.run_items(items, ('C03', 'C08'), timeout)
    rep.merge_counts(out); cands += c2
    import sys; sys.stderr.write('[c08] jit programs done\n')
    # Cranelift: same programs without the local-call ones
    citems = [dict(name=n, prog=p.hex(), vm='mbuff', helpers=[list(h) for h in hs], min_mbuff=48, min_mem=1, role='clif-helper-call') for n, p, hs in helper_programs() if 'local' not in n]
    out, c3 = clifcheck.run_items(citems, ('C04', 'C08'), timeout)
    rep.merge_counts(out); cands += c3
    sys.stderr.write('[c08] cranelift programs done\n')
    unknown_id_family(rep, cands)
    rep.extra['programs_jit'] = len(items); rep.extra['programs_cranelift'] = len(citems)
    rep.assumptions += interp.Interp.ASSUMPTION_TEXT + [
        'helper results are an uninterpreted function hcall(address, a1..a5) shared by all three engines; helper ids symbolic (any u32) in the interpreter obligations, ids {0, 1, 0x7fffffff, 0x80000000, 0xffffffff} in the compiled-code families',
        'SysV entry condition RSP = 8 (mod 16) at the entry of the JIT-compiled function; alignment obligation RSP = 0 (mod 16) at every call instruction (top level and depth 1..3)',
        'Cranelift: argument order, callee identity and result register are checked on the CLIF; its ABI lowering (alignment) is trusted',
        'unknown id at compile time: native enumeration of jit_compile / cranelift_compile results (not solver-decided)']
    rep.bounds = dict(helper_ids='symbolic u32 (interpreter); 5 boundary ids (compilers)', call_sites='top level, two calls per program, local-function depth 1..3', arguments='all 64-bit values')
    def rp(c):
        if c['role'].startswith('interp/'): return replaylib.replay_interp(c)
        if c['role'].startswith('clif'): return clifcheck.replay(c)
        if c.get('whole'): return jitwhole.replay(c)
        if c.get('model') is None: return True, 'native compile result'
        return jitcheck.replay_jit(c)
    return rep.finish(cands, rp)


def replay(path):
    d = json.load(open(path)); print(json.dumps(d, indent=1)); return 0
