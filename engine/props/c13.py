"""C13 -- the assembler emits exactly the encoding each mnemonic and operand list denotes.
C14 shares the machinery (run with --prop C14 semantics through props/c14.py)."""
import json, traceback, re
from z3 import (BitVec, BitVecVal, BoolVal, Int, Int2BV, And, Or, Not, If, ULT, ULE, UGE, Extract, SignExt, ZeroExt, simplify, is_true)
import common, mirsym, asmcheck, obl, spec
from mirsym import V, Agg, Enum, Opaque, Str, Closure
from obl import mval
from common import Report
from driver import Driver


def table_part(rep, cands):
    d = Driver.get('dev'); r = d.request(dict(op='asm_table'))
    if r.get('status') != 'ok': rep.machinery_errors.append('asm_table hook unavailable'); return {}
    real = {n: (k, o) for n, k, o in r['table']}; want = asmcheck.expected_table()
    for n in sorted(set(real) | set(want)):
        rep.obligations += 1
        if n not in real: cands.append(dict(role=f'asm/table/missing:{n}', detail=f'documented mnemonic {n} is not in the table', model=None, friendly=True))
        elif n not in want: cands.append(dict(role=f'asm/table/extra:{n}', detail=f'mnemonic {n} -> {real[n]} is not documented', model=None, friendly=True))
        elif real[n] != want[n]: cands.append(dict(role=f'asm/table/wrong:{n}', detail=f'{n}: table has {real[n]}, documented {want[n]}', model=None, friendly=True))
        else: rep.discharged += 1
    rep.extra['mnemonics'] = len(real)
    return real


def encode_part(rep, cands, table, timeout, props=('C13',)):
    mir, key = common.load_mir('std'); tt = common.type_table(); pr = obl.Prover(timeout, common.seed())
    seen_entries = {}
    for name, (kind, opc) in sorted(table.items()): seen_entries.setdefault((kind, opc), name)
    for (kind, opc), name in sorted(seen_entries.items()):
        for nops in range(0, 5):
            try: eng, ops, paths = asmcheck.run_encode(mir, tt, kind, opc, nops, timeout)
            except mirsym.Unsupported as e:
                pr.out['errors'].append(f'encode {name}/{nops}: {e}'); continue
            exp = asmcheck.expected_encode(kind, opc, ops)
            ok_any = Or(*[c for c, f in exp]) if exp else BoolVal(False)
            def md(m):
                # prefer operand values the text syntax can spell (the magnitude of a decimal literal is at most i64::MAX)
                m = pr.refine([[And(o[1] >= -(1 << 40), o[1] <= (1 << 40), o[2] >= -(1 << 40), o[2] <= (1 << 40)) for o in ops], [And(o[1] > -(1 << 63), o[2] > -(1 << 63)) for o in ops]], m)
                return dict(mnemonic=name, kind=kind, operands=[[mval(m, o[0]), mval(m, o[1]), mval(m, o[2])] for o in ops])
            for p in paths:
                pc_ = list(p.st.pc)
                if p.kind == 'panic':
                    r, m = pr.prove(f'{name}/{nops}:no-panic', pc_, BoolVal(False), sample=f'encode({name}, {nops} operands): no panic for any operand values')
                    if r == 'sat': cands.append(dict(role=f'asm/{kind.split("(")[0]}/panic:{p.payload[0][:40]}', detail=f'{name}: {p.payload}', model=md(m), friendly=True))
                    continue
                if p.kind != 'return': pr.out['errors'].append(f'encode {name}: path kind {p.kind}'); continue
                if 'C13' not in props and 'C16' not in props: continue
                isok = is_true(simplify(p.payload.disc() == 0))
                if isok:
                    got = asmcheck.insn_fields(p.payload.payload[0][0])
                    r, m = pr.prove(f'{name}/{nops}:Ok=>documented-shape-and-ranges', pc_, ok_any, sample=f'{name} with {nops} operands: Ok only for the documented operand shape with 0<=reg<16, off in i16, imm in i32')
                    if r == 'sat': cands.append(dict(role=f'asm/{kind.split("(")[0]}/accepts-wrong-operands', detail=f'{name}: accepted operands outside the documented shape/ranges', model=md(m), friendly=True))
                    for c, f in exp:
                        goal = And(got['opc'] == f['opc'], got['dst'] == f['dst'], got['src'] == f['src'], got['off'] == f['off'], got['imm'] == f['imm'])
                        r, m = pr.prove(f'{name}/{nops}:fields', pc_ + [c], goal, sample=f'{name}: opcode, dst, src, off, imm of the emitted instruction are the ones written, unused fields zero')
                        if r == 'sat': cands.append(dict(role=f'asm/{kind.split("(")[0]}/wrong-encoding', detail=f'{name}: emitted fields differ from the operands written', model=md(m), friendly=True))
                else:
                    r, m = pr.prove(f'{name}/{nops}:Err=>not-documented', pc_, Not(ok_any), sample=f'{name} with {nops} operands: Err only if shape or a range is wrong')
                    if r == 'sat': cands.append(dict(role=f'asm/{kind.split("(")[0]}/rejects-valid-operands', detail=f'{name}: valid operands rejected', model=md(m), friendly=True))
            if paths: pr.out['witnesses'] += 1
            for fn in eng.used_funcs:
                if fn in mir.funcs: pr.out['functions'][fn] = mir.fn_hash(fn)
            pr.out['programs'] += 1
    # lddw second slot: insn(0, 0, 0, 0, imm >> 32) is always Ok and carries the upper half
    eng = mirsym.Engine(mir, tt, timeout); f = mir.funcs['insn']; x = BitVec('imm64', 64)
    st = mirsym.State(); fr = mirsym.Frame(f); fr.tag = 'top'; st.frames.append(fr)
    for (p_, _), v in zip(f.params, [V(BitVecVal(0, 8), 'u8'), V(BitVecVal(0, 64), 'i64'), V(BitVecVal(0, 64), 'i64'), V(BitVecVal(0, 64), 'i64'), V(x >> 32, 'i64')]): fr.locals[p_] = v
    for p in eng.explore(st):
        if p.kind == 'return' and is_true(simplify(p.payload.disc() == 0)):
            r, m = pr.prove('lddw:second-slot', list(p.st.pc), asmcheck.insn_fields(p.payload.payload[0][0])['imm'] == SignExt(32, Extract(63, 32, x)), sample='lddw: second slot = insn(0,0,0,0, imm >> 32) with the upper 32 bits')
            if r == 'sat': cands.append(dict(role='asm/LoadImm/second-slot', detail='upper half of the 64-bit immediate wrong', model=dict(imm=mval(m, x)), friendly=True))
        else:
            r, m = pr.prove('lddw:second-slot-never-fails', list(p.st.pc), BoolVal(False))
            if r == 'sat': cands.append(dict(role='asm/LoadImm/second-slot-fails', detail=f'insn(0,0,0,0,imm>>32) is {p.kind} (assemble_internal unwraps it)', model=dict(imm=mval(m, x)), friendly=True))
    rep.merge_counts(pr.out)


def literal_part(rep, cands, timeout):
    """numeric-literal closures of asm_parser: the digit string is an arbitrary natural N (every N is denoted by some
    digit string); std contracts: u64::from_str_radix / str::parse::<i64> return Ok(N) iff N fits"""
    mir, key = common.load_mir('std'); tt = common.type_table(); pr = obl.Prover(timeout, common.seed())
    N = Int('N'); base = [10]
    def stubs(eng):
        # the target type is read from the callee's instantiation (parse::<T> / <impl T>::from_str_radix): Ok(N) iff N fits T (the literal has no sign
        # of its own: the grammar consumes it before the digits)
        def fits(callee, pat):
            m_ = re.search(pat, callee)
            if not m_ or m_.group(1) not in mirsym.INT_TYPES: raise mirsym.Unsupported(f'numeric parse into an unknown type: {callee}')
            ty = m_.group(1); w, sg = mirsym.INT_TYPES[ty]
            return ty, w, 2 ** (w - 1 if sg else w)
        def parse_stub(pat):
            def h(e, st, fr, callee, args, R):
                ty, w, lim = fits(callee, pat)
                return R(Enum(If(N < lim, BitVecVal(0, 64), BitVecVal(1, 64)), {0: [V(Int2BV(N, w), ty)], 1: [Opaque('ParseIntError')]}, 'Result'))
            return h
        eng.add_stub(r'from_str_radix$', parse_stub(r'<impl (\w+)>::from_str_radix'))
        eng.add_stub(r'<impl str>::parse$', parse_stub(r'::parse::<(\w+)>'))
        # length of the digit string: any L >= 1 with N < base^L (leading zeros allowed), base from the closure being checked
        def strlen(e, st, fr, callee, args, R):
            L = Int('L'); b = base[0]
            st.pc.append(And(L >= 1, *[Or(L != k, N < b ** k) for k in range(1, 41)]))
            return R(V(Int2BV(L, 64), 'usize'))
        eng.add_stub(r'String::len$|<impl str>::len$', strlen)
        eng.add_stub(r'message_static_message$', lambda e, st, fr, callee, args, R: R(Opaque('streamerror')))
    def run(fname, args, pre=()):
        eng = mirsym.Engine(mir, tt, timeout); stubs(eng); f = mir.funcs[fname]
        st = mirsym.State(); st.pc = [N >= 0] + list(pre); fr = mirsym.Frame(f); fr.tag = 'top'; st.frames.append(fr)
        fr.locals[f.params[0][0]] = Closure('x', [])
        for (p_, _), v in zip(f.params[1:], args): fr.locals[p_] = v
        ps = eng.explore(st)
        for fn in eng.used_funcs:
            if fn in mir.funcs: pr.out['functions'][fn] = mir.fn_hash(fn)
        return ps
    def check(fname, what, args, spec_ok, spec_val, pre=()):
        base[0] = 16 if what.startswith('hex') else 10
        try: ps = run(fname, args, pre)
        except mirsym.Unsupported as e:
            pr.out['errors'].append(f'{what}: {e}'); return
        except Exception as e:        # the closure numbering / shapes of asm_parser::integer changed: not encodable as written (exit 2), the native corpus still runs
            pr.out['errors'].append(f'{what}: the closure {fname} no longer has the expected shape ({type(e).__name__}: {e})'); return
        for p in ps:
            pc_ = list(p.st.pc)
            if p.kind != 'return':
                r, m = pr.prove(f'{what}:no-panic', pc_, BoolVal(False), sample=f'{what}: no panic for any literal magnitude N')
                if r == 'sat': cands.append(dict(role=f'asm-literal/{what}/panic', detail=f'{p.payload} for N = {m.eval(N)}', model=dict(N=str(m.eval(N)), L=str(m.eval(Int('L')))), friendly=True))
                continue
            v = p.payload
            if isinstance(v, Enum) and v.ty == 'Result' and not (is_true(simplify(v.disc() == 0)) or is_true(simplify(v.disc() == 1))):
                d_ = v.disc()
                r, m = pr.prove(f'{what}:Ok<=>fits', pc_, And(Or(d_ != 0, And(spec_ok, v.payload[0][0].t == spec_val)), Or(d_ != 1, Not(spec_ok)), ULT(d_, 2)), sample=f'{what}: Ok(v) iff N fits, and then v = N; Err otherwise; for every N')
                if r == 'sat': cands.append(dict(role=f'asm-literal/{what}/wrong-result', detail=f'N = {m.eval(N)}', model=dict(N=str(m.eval(N)), L=str(m.eval(Int('L')))), friendly=True))
            elif isinstance(v, Enum) and v.ty == 'Result':
                isok = is_true(simplify(v.disc() == 0))
                if isok:
                    r, m = pr.prove(f'{what}:Ok=>fits-and-value', pc_, And(spec_ok, v.payload[0][0].t == spec_val), sample=f'{what}: Ok(v) only if N fits and v = N')
                    if r == 'sat': cands.append(dict(role=f'asm-literal/{what}/wrong-value', detail=f'N = {m.eval(N)}', model=dict(N=str(m.eval(N)), L=str(m.eval(Int('L')))), friendly=True))
                else:
                    r, m = pr.prove(f'{what}:Err=>does-not-fit', pc_, Not(spec_ok), sample=f'{what}: Err only if N does not fit')
                    if r == 'sat': cands.append(dict(role=f'asm-literal/{what}/rejects-valid', detail=f'N = {m.eval(N)}', model=dict(N=str(m.eval(N)), L=str(m.eval(Int('L')))), friendly=True))
            else:
                r, m = pr.prove(f'{what}:value', pc_, v.t == spec_val if isinstance(v, V) else BoolVal(True))
                if r == 'sat': cands.append(dict(role=f'asm-literal/{what}/wrong-value', detail='', model=None, friendly=True))
        if ps: pr.out['witnesses'] += 1
    digits = Opaque('digits')
    check('integer::{closure#1}', 'hex-literal', [digits], N < 2 ** 64, Int2BV(N, 64))
    check('integer::{closure#2}', 'decimal-literal', [digits], N < 2 ** 63, Int2BV(N, 64))
    check('register::{closure#0}', 'register-number', [digits], N < 2 ** 63, Int2BV(N, 64))
    s_, x_ = BitVec('sign', 64), BitVec('mag', 64)
    check('integer::{closure#3}', 'sign-times-magnitude', [Agg([V(s_, 'i64'), V(x_, 'i64')])], BoolVal(True), s_ * x_, pre=[Or(s_ == 1, s_ == -1)])
    rep.merge_counts(pr.out)


def native_texts(rep, cands):
    """C14, bounded native complement for the layers the solver does not reach (combine grammar, assemble_internal's error paths): a generated corpus of
    hostile texts goes through assemble() in the real build; Ok or Err are both fine, a panic is a violation.  Generators: every separator / length /
    character-class dimension is enumerated systematically (not sampled): identifier lengths 0..72 with a multi-byte character at every position,
    numeric literals of 1..40 digits in both radices and signs, operand truncations of every documented shape, unbalanced brackets, control characters."""
    d = Driver.get('dev'); T = []
    multi = ['\u00e9', '\u4e2d', '\U0001f600', '\u0663', '\u0301']
    for L in range(0, 73):
        T.append('a' * L); T.append('a' * L + ' r1, 2'); T.append('mov' + 'x' * L + ' r1, 2')
        for ch in multi:
            for pos in sorted({0, L // 2, max(L - 1, 0), L}):
                T.append('a' * pos + ch + 'a' * max(L - pos, 0)); T.append('a' * pos + ch + 'a' * max(L - pos, 0) + ' r1')
    for nd in range(1, 41):
        for dg in ('9', '1', '0', 'f'):
            for sg in ('', '-', '+'):
                if dg != 'f': T.append(f'mov r0, {sg}{dg * nd}'); T.append(f'lddw r0, {sg}{dg * nd}'); T.append(f'ja {sg}{dg * nd}'); T.append(f'mov r{dg * nd}, 1'); T.append(f'ldxw r1, [r2{sg or "+"}{dg * nd}]')
                T.append(f'mov r0, {sg}0x{dg * nd}'); T.append(f'lddw r0, {sg}0x{dg * nd}'); T.append(f'stw [r1{sg or "+"}0x{dg * nd}], 1')
    T += ['mov r0, -9223372036854775808', 'lddw r0, -9223372036854775808', 'mov r0, -0x8000000000000000', 'lddw r0, -0x8000000000000000', 'ja -9223372036854775808', 'ldxw r1, [r2-9223372036854775808]', 'mov r-1, 1', 'mov r+1, 1']
    # boundary magnitudes in every operand position, both radices, every sign (sign application / narrowing overflow at 2^15, 2^16, 2^31, 2^32, 2^63, 2^64)
    for M in sorted({2 ** k + dlt for k in (15, 16, 31, 32, 63, 64) for dlt in (-1, 0, 1)}):
        for lit in (str(M), hex(M)):
            for sg in ('', '-', '+'):
                T += [f'mov r0, {sg}{lit}', f'lddw r0, {sg}{lit}', f'ja {sg}{lit}', f'jeq r1, 2, {sg}{lit}', f'jeq r1, {sg}{lit}, +1', f'call {sg}{lit}', f'ldabsw {sg}{lit}', f'ldindw r1, {sg}{lit}',
                      f'ldxw r1, [r2{sg or "+"}{lit}]', f'stw [r1{sg or "+"}{lit}], 1', f'stw [r1+1], {sg}{lit}', f'stxw [r1{sg or "+"}{lit}], r2', f'be{lit} r1', f'mov r{lit}, 1']
    shapes = ['mov r1, 2', 'ldxw r1, [r2+4]', 'stw [r1+2], 3', 'stxw [r1-2], r3', 'jeq r1, 2, +3', 'lddw r1, 0x1122334455667788', 'be16 r1', 'call 3', 'ja +1', 'ldabsw 4', 'ldindw r1, 4', 'neg r1', 'exit']
    for t in shapes:
        for i in range(len(t) + 1): T.append(t[:i]); T.append(t[:i] + '\n' + t); T.append(t[:i] + ',')
        for ch in ['[', ']', ',', '+', '-', '\x00', '\x7f', '\u00a0', '\t', '\r', '\u2028', ';', '#', '"', "'", '\\', '%', '{', '}']:
            for i in range(0, len(t) + 1, 2): T.append(t[:i] + ch + t[i:])
    T += ['[' * k for k in (1, 10, 1000)] + ['r' * k for k in (1, 10, 1000)] + ['-' * k + '1' for k in (1, 2, 50)] + ['mov r0, ' + '0x' * k for k in (1, 2, 9)] + ['exit\n' * 5000, 'mov r0, 1,' * 300, ',' * 100, ' ' * 10000 + 'exit', 'exit' + '\n' * 10000]
    seen = set(); n = 0
    for t in T:
        if t in seen: continue
        seen.add(t); n += 1; rep.obligations += 1
        r = d.request(dict(op='assemble', text=t))
        if r.get('status') in ('ok', 'err'): rep.discharged += 1
        else:
            first = (t.split() or ['empty'])[0]
            cands.append(dict(role=f'native/assemble-panics:{(r.get("msg") or "")[:60]}', detail=f'assemble({t[:80]!r}{"..." if len(t) > 80 else ""}) -> {r.get("status")}: {str(r.get("msg"))[:200]}', model=None, friendly=True, native=True, text=t[:400]))
    rep.extra['native_texts'] = n


def replay_asm(c):
    """through the public API: the text of the offending instruction is assembled natively"""
    if c.get('native'): return True, 'observed natively'
    md = c.get('model')
    if md is None: return True, 'table/structural finding'
    if 'N' in md:
        role = c['role']
        L = int(md['L']) if str(md.get('L', '')).isdigit() and int(md['L']) <= 60 else 0          # digit-string length of the model (leading zeros)
        txt = {'hex-literal': f'mov r0, 0x{int(md["N"]):x}'.replace('0x', '0x' + '0' * max(0, L - len(f'{int(md["N"]):x}'))), 'decimal-literal': f'mov r0, {str(md["N"]).zfill(L)}', 'register-number': f'mov r{md["N"]}, 1'}.get(role.split('/')[1], f'lddw r0, -0x8000000000000000')
    elif 'operands' in md:
        def op(o):
            d, a, b = o; sa = a - (1 << 64) if a >> 63 else a; sb = b - (1 << 64) if b >> 63 else b
            return {0: f'r{sa}', 1: f'{sa}', 2: f'[r{sa}{sb:+d}]', 3: ''}[d]
        txt = md['mnemonic'] + ' ' + ', '.join(op(o) for o in md['operands'])
    else: return True, 'solver model'
    d = Driver.get('dev')
    if 'N' in md and c['role'].split('/')[-1] in ('wrong-result', 'wrong-value', 'rejects-valid') and c['role'].split('/')[1] in ('hex-literal', 'decimal-literal'):
        # a literal is observable through lddw (64-bit immediate: every value the literal parser lets through is encodable there)
        Nv = int(md['N']); kind = c['role'].split('/')[1]; lit = (f'0x{Nv:x}' if kind == 'hex-literal' else str(Nv))
        fits = Nv < (2 ** 64 if kind == 'hex-literal' else 2 ** 63)
        r = d.request(dict(op='assemble', text=f'lddw r0, {lit}\nexit')); c['replay'] = dict(text=f'lddw r0, {lit}', native=r, documented_range_holds=fits)
        if r.get('status') == 'panic': return True, f'assemble(lddw r0, {lit}) panics'
        if not fits: return r.get('status') == 'ok', f'assemble(lddw r0, {lit}) -> {r.get("status")} although the literal is outside the documented range'
        if r.get('status') != 'ok': return True, f'assemble(lddw r0, {lit}) -> {r.get("status")} although the literal is in range'
        want = (0x18).to_bytes(1, 'little') + bytes(3) + (Nv & 0xffffffff).to_bytes(4, 'little') + bytes(4) + (Nv >> 32).to_bytes(4, 'little')
        got = bytes.fromhex(r.get('bytes', '')) if isinstance(r.get('bytes'), str) else None
        return (got is not None and got[:16] != want), f'assemble(lddw r0, {lit}) -> {r.get("bytes")}'
    r = d.request(dict(op='assemble', text=txt + '\nexit'))
    c['replay'] = dict(text=txt, native=r)
    if r.get('status') == 'panic': return True, f'assemble({txt!r}) panics: {r.get("msg")}'
    if r.get('status') == 'unknown_op': return True, 'solver model (no native assemble op)'
    asp = c['role'].split('/')[-1]
    if asp in ('accepts-wrong-operands', 'wrong-encoding'): return r.get('status') == 'ok', f'assemble({txt!r}) -> {r}'
    if asp == 'rejects-valid-operands' or asp == 'rejects-valid': return r.get('status') == 'err', f'assemble({txt!r}) -> {r}'
    return (r.get('status') == 'panic'), f'assemble({txt!r}) -> {r.get("status")}'


def run(pid='C13'):
    rep = Report(pid, 'model_checking', f'5/{pid}')
    timeout = 20000 if common.tier() == 'quick' else 120000
    cands = []
    table = table_part(rep, cands) if pid == 'C13' else {n: (k, o) for n, k, o in Driver.get('dev').request(dict(op='asm_table')).get('table', [])}
    encode_part(rep, cands, table, timeout, props=(pid,))
    literal_part(rep, cands, timeout)
    if pid == 'C14':
        native_texts(rep, cands)
        rep.assumptions.append('bounded native complement (grammar layer, error paths of assemble_internal): a systematically generated corpus of hostile texts through assemble() - no panic')
    rep.assumptions += ['pipeline: text -> (combine grammar: NOT encoded, no solver front end reaches generic combinator code) -> Instruction{name, operands} -> mnemonic table (hook H3, the real function run once) -> encode -> insn -> Insn::to_array (C17)',
                        'operands are symbolic: operand kind, register number, offset and immediate are arbitrary i64 (the grammar only produces non-negative register numbers)',
                        'numeric literals: the digit string is an arbitrary natural N; u64::from_str_radix / str::parse::<i64> are modelled by their documented contract (Ok(N) iff N fits)']
    rep.bounds = dict(mnemonics=len(table), operand_count='0..4', operand_values='all i64', literal_magnitude='unbounded natural')
    return rep.finish(cands, replay_asm)


def replay(path):
    d = json.load(open(path)); print(json.dumps(d, indent=1)); return 0
