"""C12 part A: solver obligations on the x86-64 JIT's per-instruction loop body (MIR of JitCompiler::jit_compile)."""
import traceback, re
from z3 import (BitVec, BitVecVal, Bool, BoolVal, Array, BitVecSort, Select, And, Or, Not, If, ULT, ULE, UGE, Extract, ZeroExt, simplify, is_true, is_false, is_bv_value, URem)
import common, mirsym, spec, obl, verif
from mirsym import V, Agg, Enum, Slice, Opaque, Ptr, Ref, LazyObj, Unsupported


class JitLoop:
    def __init__(self, mir, types, timeout):
        self.mir = mir; self.f = [mir.funcs[n] for n in mir.funcs if n.endswith('::jit_compile') and 'jit.rs' in n][0]
        self.eng = mirsym.Engine(mir, types, timeout); self.eng.summarize = {'get_insn', 'map_register'}
        e = self.eng
        self.reg_some = BitVec('helper_registered', 64); e.ctx.setdefault('lazy_ranges', []).append(ULT(self.reg_some, 2))
        e.add_stub(r'^hashbrown::HashMap::get$', lambda en, st, fr, callee, args, R: R(Enum(self.reg_some, {0: [], 1: [Opaque('fnptr', ('helper',))]}, 'Option')))
        e.add_stub(r'^hashbrown::HashMap::insert$', lambda en, st, fr, callee, args, R: (st.events.append(('anchor', args[1:])), R(Enum(0, {0: []}, 'Option')))[1])
        e.add_stub(r'Vec::push$', lambda en, st, fr, callee, args, R: (st.events.append(('jump', args[1])), R(Agg([], '()')))[1])
        self.nslots = BitVec('pc_locs.len', 64)
        e.add_stub(r'^(std|alloc)::vec::from_elem$', lambda en, st, fr, callee, args, R: R(Slice(BitVec('pc_locs.ptr', 64), args[1].t, 'usize')))
        heads = self.f.loop_heads()
        if len(heads) != 1: raise Unsupported(f'jit_compile: loops {heads}')
        self.head = heads[0]; self.ip = self.f.local_of('insn_ptr')
        # JitMemory's field numbering depends on the feature set (`layout` exists only with std): read the index of `offset` (the only usize field) from emit1's MIR
        e1 = [mir.funcs[n] for n in mir.funcs if n.endswith('::emit1') and 'jit.rs' in n]
        ks = set(re.findall(r'\(\(\*_2\)\.(\d+): usize\)', e1[0].text)) if e1 else set()
        if len(ks) != 1: raise Unsupported(f'JitMemory offset field: {ks}')
        self.off_field = int(ks.pop())
        self.prog_base, self.prog_len = BitVec('prog_base', 64), BitVec('prog_len', 64); self.M0 = Array('M0', BitVecSort(64), BitVecSort(8))
        self._head = None
    def head_state(self):
        if self._head is None:
            f = self.f; eng = self.eng
            st = mirsym.State(); st.mem = self.M0
            fr = mirsym.Frame(f); fr.tag = 'top'; st.frames.append(fr)
            p = [x[0] for x in f.params]
            fr.locals['$jc'], fr.locals['$jm'] = self.objs(); fr.locals[p[0]] = Ref(fr, '$jc', []); fr.locals[p[1]] = Ref(fr, '$jm', [])
            fr.locals[p[2]] = Slice(self.prog_base, self.prog_len); fr.locals[p[3]] = V(Bool('use_mbuff'), 'bool'); fr.locals[p[4]] = V(Bool('update_data_ptr'), 'bool'); fr.locals[p[5]] = Opaque('helpers')
            st.pc = [self.jm_offset() == 0, UGE(self.jm_len(), 4096)]
            k = (f.name, self.head); st.visits[k] = 1
            ps = eng.explore(st, cuts={k})
            self.prologue_paths = ps
            cuts = [q for q in ps if q.kind == 'cut']
            if not cuts: raise Unsupported('jit_compile: loop head not reached')
            self._head = cuts[0].st
        return self._head
    def jm_offset(self): return BitVec('jm.offset', 64)
    def jm_len(self): return BitVec('jm.contents.len', 64)
    def jm_we(self): return Bool('jm.write_enabled')
    def objs(self):
        """the compiler objects with build-independent symbol names: JitMemory { contents (0), write_enabled (1), [layout,] offset }, JitCompiler { pc_locs (0), .. }"""
        jm = LazyObj('jm', 'JitMemory', {0: Slice(BitVec('jm.contents.ptr', 64), self.jm_len(), 'u8'), 1: V(self.jm_we(), 'bool'), self.off_field: V(self.jm_offset(), 'usize')})
        jc = LazyObj('jc', 'JitCompiler', {0: Slice(BitVec('pc_locs.ptr', 64), self.nslots, 'usize')})
        return jc, jm
    def step(self, opc):
        st = self.head_state().fork(); fr = st.frames[0]; self.eng.memo.clear()
        st.pc = []; st.log = []; st.events = []; st.visits = {}; st.aux.pop('writes', None)
        P = type('P', (), {})(); P.pc = BitVec('pc', 64)
        for l in self.f.assigned_in(self.f.loop_body(self.head)): fr.locals.pop(l, None)
        fr.locals[self.ip] = V(P.pc, 'usize')
        jc, jm = self.objs()      # the compiler objects at the loop head: arbitrary offset, write flag, pc_locs of n+1 entries
        p = [x[0] for x in self.f.params]; fr.locals['$jc'] = jc; fr.locals['$jm'] = jm; fr.locals[p[0]] = Ref(fr, '$jc', []); fr.locals[p[1]] = Ref(fr, '$jm', [])
        P.opc = BitVecVal(opc, 8); P.regbyte = BitVec('regbyte', 8); P.off = BitVec('off', 16); P.imm = BitVec('imm', 32)
        P.nopc = BitVec('nopc', 8); P.nregbyte = BitVec('nregbyte', 8); P.noff = BitVec('noff', 16); P.next_imm = BitVec('next_imm', 32)
        a0 = self.prog_base + 8 * P.pc; bts = []
        for t in (P.opc, P.regbyte, P.off, P.imm, P.nopc, P.nregbyte, P.noff, P.next_imm):
            for i in range(t.size() // 8): bts.append(Extract(8 * i + 7, 8 * i, t) if t.size() > 8 else t)
        st.pc += [Select(self.M0, a0 + i) == b for i, b in enumerate(bts)]
        st.aux['overlay'] = mirsym.Engine.make_overlay(a0, bts)
        return st, P


def mentions(c, name, _memo={}):
    """does the term mention the constant `name`"""
    seen = set(); stack = [c]
    while stack:
        t = stack.pop(); i = t.get_id()
        if i in seen: continue
        seen.add(i)
        if t.num_args() == 0:
            if t.decl().name() == name: return True
        else: stack.extend(t.children())
    return False



def foreign_program_reads(J, P, paths, pr, name, skip=0):
    """context-freedom of the emission: everything one loop iteration decides or writes (path conditions, emitted bytes, recorded jumps, new offset) may read
    the program only inside the current instruction's 16 bytes [prog + 8*pc, prog + 8*pc + 16).  The per-instruction translation validation of C03/C07/C08
    (one instruction compiled in one context, operands symbolic) lifts to whole programs only under this premise.  Returns the neighbours found:
    dicts(slot_delta, bytes, pc, regbyte, off, imm) from solver models."""
    M0 = J.M0; a0 = J.prog_base + 8 * P.pc; found = []; seen_addr = set()
    for p in paths:
        if p.kind not in ('cut', 'return'): continue
        terms = list(p.st.pc)[skip:] + [p.st.mem]       # the first `skip` conditions are the caller's assumptions (verifier formula: talks about other instructions)
        for e in p.st.events:
            if e[0] == 'jump': terms += [x.t for x in e[1].f if isinstance(x, V)]
        jm = p.st.frames[0].locals.get('$jm') if p.st.frames else None
        if jm is not None and J.off_field in getattr(jm, 'fields', {}): terms.append(jm.fields[J.off_field].t)
        seen = set(); stack = [t for t in terms if hasattr(t, 'get_id')]; addrs = []
        while stack:
            t = stack.pop(); i = t.get_id()
            if i in seen: continue
            seen.add(i)
            if t.num_args() == 2 and t.decl().name() == 'select' and mentions(t.arg(1), 'prog_base'): addrs.append(t.arg(1))      # a read through the program slice (memory may carry this iteration's stores)
            stack.extend(t.children())
        for a in addrs:
            k = (a.get_id())
            if k in seen_addr: continue
            seen_addr.add(k)
            d = simplify(a - a0)
            if is_bv_value(d) and d.as_long() < 16:
                pr.out['syntactic'] = pr.out.get('syntactic', 0) + 1; continue
            r, m = pr.prove(f'{name}:emission-reads-only-the-current-instruction', list(p.st.pc), ULT(a - a0, 16),
                            sample=f'{name}: every program byte one jit_compile iteration depends on lies inside the current instruction')
            if r == 'sat':
                av = obl.mval(m, a); base = obl.mval(m, J.prog_base); pcv = obl.mval(m, P.pc); slot = (av - base) // 8
                bts = [m.eval(Select(M0, BitVecVal(base + 8 * slot + i, 64)), model_completion=True).as_long() for i in range(8)]
                found.append(dict(slot_delta=slot - pcv, bytes=bytes(bts).hex(), pc=pcv, regbyte=obl.mval(m, P.regbyte), off=obl.mval(m, P.off), imm=obl.mval(m, P.imm)))
    return found

def buffer_obligation(pr, J, name, pc_, off0, d, cands, assumed=()):
    """an emitting path explored under `64 bytes left` takes the same branches whenever the buffer has room for just the bytes it emits"""
    L = [c for c in pc_ if mentions(c, 'jm.contents.len') and not any(c.eq(x) for x in assumed)]; A = [c for c in pc_ if not mentions(c, 'jm.contents.len')]
    if not L: return
    r, m = pr.prove(f'{name}:buffer-checks-implied-by-room-for-emitted-bytes', A + [UGE(J.jm_len(), off0 + d), ULE(J.jm_len(), 1 << 40), ULE(off0, 1 << 32)], And(*L),
                    sample=f'{name}: every buffer-capacity condition on an emitting path follows from len >= offset + bytes emitted by this step')
    if r == 'sat': cands.append(dict(role=f'jit-compile/{name}/buffer-check-needs-more-room-than-emitted', detail='an emitting path needs more buffer than the bytes it emits', model=None, friendly=True))


def frame_worker(timeout):
    """prologue / epilogue two-pass agreement, and the arguments JitMemory::new passes to the two passes"""
    try:
        mir, key = common.load_mir('std'); tt = common.type_table()
        J = JitLoop(mir, tt, timeout); pr = obl.Prover(timeout, common.seed()); cands = []
        def agree(tag, paths, off0, offs, assumed):
            T, F = [], []
            for p, d in zip(paths, offs):
                pc_ = list(p.st.pc)
                rt, _ = pr.check(pc_, [J.jm_we()]); rf, _ = pr.check(pc_, [Not(J.jm_we())])
                if rt == 'sat': T.append((p, d)); buffer_obligation(pr, J, tag, pc_ + [J.jm_we()], off0, d, cands, assumed)
                if rf == 'sat': F.append((p, d))
            if not T or not F: pr.out['errors'].append(f'{tag}: missing pass'); return
            pr.out['witnesses'] += 1
            for pt, dt in T:
                for pf, df in F:
                    both = [c for c in list(pt.st.pc) + list(pf.st.pc) if not mentions(c, 'jm.write_enabled') and not mentions(c, 'jm.contents.len')]
                    r0, _ = pr.check(both, [])
                    if r0 == 'unsat': continue
                    r, m = pr.prove(f'{tag}:two-pass-agreement', both, dt == df, sample=f'{tag}: sizing and emitting pass emit the same number of bytes for the same VM kind flags')
                    if r == 'sat': cands.append(dict(role=f'jit-compile/{tag}/two-pass-disagreement', detail=f'{tag}: passes disagree ({df} vs {dt})', model=None, friendly=True))
        # prologue
        J.head_state()
        cuts = [p for p in J.prologue_paths if p.kind == 'cut']
        for p in J.prologue_paths:
            if p.kind not in ('cut',):
                r, m = pr.prove('prologue:no-panic', list(p.st.pc), BoolVal(False), sample='prologue: no panic path')
                if r == 'sat': cands.append(dict(role=f'jit-compile/prologue/panic', detail=f'{p.kind} {p.payload}', model=None, friendly=True))
        agree('prologue', cuts, BitVecVal(0, 64), [simplify(p.st.frames[0].locals['$jm'].fields[J.off_field].t - J.jm_offset()) for p in cuts], [J.jm_offset() == 0, UGE(J.jm_len(), 4096)])
        # epilogue: loop exit (insn_ptr == n)
        st, P = J.step(0x95); n = J.prog_len / 8; off0 = J.jm_offset()
        st.pc = epi = [P.pc == n, ULE(J.prog_len, 8000000), J.prog_len % 8 == 0, J.nslots == n + 1, ULE(off0, 1 << 32), Or(Not(J.jm_we()), UGE(J.jm_len(), off0 + 64)), ULE(J.jm_len(), 1 << 40)]
        st.aux.pop('overlay', None)
        paths = J.eng.explore(st, cuts={(J.f.name, J.head)})
        rets = []
        for p in paths:
            if p.kind == 'return' and p.st.aux.get('final_locals', {}).get('$jm') is not None: rets.append(p)
            else:
                r, m = pr.prove('epilogue:no-panic', list(p.st.pc), BoolVal(False), sample='epilogue: no panic path')
                if r == 'sat': cands.append(dict(role=f'jit-compile/epilogue/{p.kind}', detail=f'{p.kind} {p.payload}', model=None, friendly=True))
        agree('epilogue', rets, off0, [simplify(p.st.aux['final_locals']['$jm'].fields[J.off_field].t - off0) for p in rets], epi)
        new_args(mir, tt, timeout, pr, cands)
        for fn in J.eng.used_funcs:
            if fn in mir.funcs: pr.out['functions'][fn] = mir.fn_hash(fn)
        return dict(out=pr.out, cands=cands)
    except Exception as e:
        return dict(out=dict(errors=[f'c12a frame worker crashed: {e}\n{traceback.format_exc()[-1500:]}']), cands=[])


def new_args(mir, tt, timeout, pr, cands):
    """JitMemory::new: both passes get the same program / flags / helpers; the buffer of pass 2 holds what pass 1 counted"""
    f = [mir.funcs[n] for n in mir.funcs if n.endswith('::new') and 'jit.rs' in n and 'JitMemory' in mir.funcs[n].ret]
    if len(f) != 1: raise Unsupported(f'JitMemory::new: {len(f)} candidates')
    f = f[0]; eng = mirsym.Engine(mir, tt, timeout); k = [0]
    nfields = 4 if re.search(r'JitMemory::<[^>]*> \{[^}]*layout:', f.text) else 3
    def D(name):
        d = BitVec(name, 64); eng.ctx.setdefault('lazy_ranges', []).append(ULT(d, 2)); return d
    def jc(en, st, fr, callee, args, R):
        k[0] += 1; r = args[1]; memv = en.get(st, r.frame, r.local, r.proj)
        st.events.append(('pass', dict(mem=memv, prog=args[2], use_mbuff=args[3], update=args[4], helpers=args[5])))
        f_ = list(memv.f); cnt = BitVec(f'emitted!{k[0]}', 64); f_[-1] = V(cnt, 'usize'); en.put(st, r.frame, r.local, r.proj, Agg(f_, memv.ty, memv.kind))
        return R(Enum(D(f'pass_res!{k[0]}'), {0: [Agg([], '()')], 1: [Opaque('err', ('jit',))]}, 'Result'))
    eng.add_stub(r'JitCompiler::jit_compile$', jc)
    eng.add_stub(r'JitCompiler::new$', lambda en, st, fr, callee, args, R: R(LazyObj('jitc', 'JitCompiler')))
    eng.add_stub(r'JitCompiler::resolve_jumps$', lambda en, st, fr, callee, args, R: R(Enum(D('resolve_res'), {0: [Agg([], '()')], 1: [Opaque('err', ('jit',))]}, 'Result')))
    eng.add_stub(r'Layout::from_size_align_unchecked$', lambda en, st, fr, callee, args, R: R(Opaque('layout', tuple(args))))
    eng.add_stub(r'^std::alloc::alloc$', lambda en, st, fr, callee, args, R: R(Ptr(BitVec('alloc_ptr', 64), 'u8')))
    eng.add_stub(r'mut_ptr::<impl \*mut u8>::is_null$', lambda en, st, fr, callee, args, R: R(V(BoolVal(False), 'bool')))     # allocation failure is outside the claim
    eng.add_stub(r'^mprotect$|libc::mprotect$', lambda en, st, fr, callee, args, R: R(V(BitVecVal(0, 32), 'i32')))
    eng.add_stub(r'slice::from_raw_parts_mut', lambda en, st, fr, callee, args, R: R(Slice(args[0].addr, args[1].t, 'u8')))
    eng.add_stub(r'as From<ErrorKind>>::from$', lambda en, st, fr, callee, args, R: R(Opaque('err', ('oom',))))
    eng.add_stub(r'Ord>::max$', lambda en, st, fr, callee, args, R: R(V(If(UGE(args[0].t, args[1].t), args[0].t, args[1].t), args[0].ty)))
    eng.add_stub(r'JitMemory::<.*>::counter$|JitMemory::counter$', lambda en, st, fr, callee, args, R: R(Agg([Slice(BitVec('empty.ptr', 64), BitVecVal(0, 64), 'u8'), V(BoolVal(False), 'bool')] + ([Opaque('layout0')] if nfields == 4 else []) + [V(BitVecVal(0, 64), 'usize')], 'JitMemory', 'struct')))
    st = mirsym.State(); st.mem = Array('M0', BitVecSort(64), BitVecSort(8))
    fr = mirsym.Frame(f); fr.tag = 'top'; st.frames.append(fr)
    bools = ['use_mbuff', 'update_data_ptr']; caller_mem = None
    for (p_, t_) in f.params:          # by type: the no_std variant has one more parameter (caller-supplied executable memory)
        if t_ == 'bool': fr.locals[p_] = V(Bool(bools.pop(0)), 'bool')
        elif 'HashMap' in t_: fr.locals[p_] = Opaque('helpers')
        elif 'mut [u8]' in t_: caller_mem = Slice(BitVec('exec.ptr', 64), BitVec('exec.len', 64), 'u8'); fr.locals[p_] = caller_mem
        elif '[u8]' in t_: fr.locals[p_] = Slice(BitVec('prog_base', 64), BitVec('prog_len', 64))
        else: raise Unsupported(f'JitMemory::new parameter {p_}: {t_}')
    paths = eng.explore(st); two = 0
    for q in paths:
        if q.kind != 'return':
            r, m = pr.prove('JitMemory::new:no-panic', list(q.st.pc) + [ULE(BitVec('emitted!1', 64), 1 << 40)], BoolVal(False), sample='JitMemory::new: no panic path (counted size <= 2^40)')
            if r == 'sat': cands.append(dict(role=f'jit-new/{q.kind}', detail=f'JitMemory::new: {q.kind} {q.payload}', model=None, friendly=True))
            continue
        ps = [e[1] for e in q.st.events if e[0] == 'pass']
        if len(ps) < 2: continue
        two += 1; a, b = ps[0], ps[1]
        def same(x, y):
            if isinstance(x, Slice): return x.base.eq(y.base) and x.len.eq(y.len)
            if isinstance(x, V): return x.t.eq(y.t)
            if isinstance(x, Opaque): return x.tag == y.tag and x.args == y.args
            return x is y
        bad = [kk for kk in ('prog', 'use_mbuff', 'update', 'helpers') if not same(a[kk], b[kk])]
        pr.out['syntactic'] = pr.out.get('syntactic', 0) + 4
        if bad: cands.append(dict(role='jit-new/passes-get-different-arguments:' + ','.join(bad), detail=f'JitMemory::new passes different {bad} to the sizing and the emitting pass: {[(str(a[x]), str(b[x])) for x in bad]}', model=None, friendly=True))
        m1, m2 = a['mem'], b['mem']
        goal = And(Not(m1.f[1].t) if not isinstance(m1.f[1].t, bool) else BoolVal(not m1.f[1].t), m1.f[-1].t == 0, m2.f[1].t, m2.f[-1].t == 0, UGE(m2.f[0].len, BitVec('emitted!1', 64)))
        if caller_mem is not None:       # no_std: pass 2 writes into the caller's memory, which is page aligned
            goal = And(goal, m2.f[0].base == caller_mem.base, m2.f[0].len == caller_mem.len, URem(caller_mem.base, 4096) == 0)
        r, m = pr.prove('JitMemory::new:buffer-holds-counted-size', list(q.st.pc) + [ULE(BitVec('emitted!1', 64), 1 << 40)], goal, sample='JitMemory::new: pass 1 counts from 0 without writing, pass 2 writes from 0 into a buffer of at least the counted size')
        if r == 'sat': cands.append(dict(role='jit-new/buffer-smaller-than-counted', detail='the buffer handed to the emitting pass can be smaller than the counted size', model=None, friendly=True))
    if not two: pr.out['errors'].append('JitMemory::new: no path runs both passes')
    else: pr.out['witnesses'] += 1
    for fn in eng.used_funcs:
        if fn in mir.funcs: pr.out['functions'][fn] = mir.fn_hash(fn)


def part_a(rep, cands, timeout):
    import multiprocessing as mp
    ops = list(spec.VERIFIER_OK); nj = min(common.jobs(), 16)
    common.load_mir('std')
    with mp.Pool(nj) as pool:
        fr_ = pool.apply_async(frame_worker, (timeout,))
        res = pool.map(worker, [(ops[i::nj], timeout) for i in range(nj)]) + [fr_.get()]
    for r in res:
        rep.merge_counts(r['out']); cands.extend(r['cands'])
    rep.assumptions += ['part A: compiler state at the loop head is arbitrary (code offset, write flag, jump list); instruction satisfies the extracted acceptance formula of the real verifier; pc_locs has n+1 entries (set before the loop)',
                        'part A: emitting paths are explored with 64 bytes of room and each is then shown to need only room for the bytes it emits (buffer-checks-implied obligation); that this room exists at every step follows by induction from the two-pass agreement of prologue, every instruction and epilogue, and from JitMemory::new handing pass 2 a buffer of at least the counted size with the same program, flags and helpers (all discharged obligations; the induction over instructions itself is a paper step)',
                        'part A: resolve_jumps (patching after emission) and helper-map contents are outside part A; part B exercises them natively']


def worker(args):
    opcodes, timeout = args
    try:
        mir, key = common.load_mir('std'); tt = common.type_table()
        J = JitLoop(mir, tt, timeout); Vf = verif.Verif(mir, tt, timeout); pr = obl.Prover(timeout, common.seed()); cands = []
        alen = Vf.a_len()
        # special jump targets registered by set_anchor (epilogue): what resolve_jumps looks up before indexing pc_locs
        anchors = set()
        try:
            st_e, P_e = J.step(0x95); st_e.pc = [P_e.pc == J.prog_len / 8, ULE(J.prog_len, 8000000), J.prog_len % 8 == 0, J.nslots == J.prog_len / 8 + 1, ULE(J.jm_offset(), 1 << 32), Or(Not(J.jm_we()), UGE(J.jm_len(), J.jm_offset() + 64)), ULE(J.jm_len(), 1 << 40)]
            st_e.aux.pop('overlay', None)
            for q in J.eng.explore(st_e, cuts={(J.f.name, J.head)}):
                for e in q.st.events:
                    if e[0] == 'anchor':
                        v = simplify(e[1][0].t)
                        if is_bv_value(v): anchors.add(v.as_long())
        except Unsupported as e: pr.out['errors'].append(f'anchors: {e}')
        for opc in opcodes:
            name = spec.opname(opc)
            try:
                A, _, VP = Vf.accept_formula(opc)
                st, P = J.step(opc)
                n = J.prog_len / 8
                off0 = J.jm_offset()
                inv = [alen, simplify(A), ULT(P.pc, n), J.nslots == n + 1, ULE(off0, 1 << 32), ULE(J.prog_len, 8000000),
                       Or(Not(J.jm_we()), UGE(J.jm_len(), off0 + 64)), ULE(J.jm_len(), 1 << 40), ULE(BitVec('jm.contents.ptr', 64), 1 << 62), ULE(BitVec('pc_locs.ptr', 64), 1 << 62)]
                st.pc += inv; n_assumed = len(st.pc)
                paths = J.eng.explore(st, cuts={(J.f.name, J.head)})
                by_we = {True: [], False: []}
                for p in paths:
                    pc_ = list(p.st.pc)
                    if p.kind == 'return':
                        # Err results (unknown helper / call kind / opcode) are legitimate outcomes
                        continue
                    if p.kind != 'cut':
                        r, m = pr.prove(f'{name}:no-panic', pc_, BoolVal(False), sample=f'{name}: no panic path in one jit_compile iteration for any fields/offset/pass')
                        if r == 'sat': cands.append(dict(role=f'jit-compile/{name}/panic:{(p.payload[0] if p.kind == "panic" else p.kind)[:40]}', detail=f'{p.kind} {p.payload}', model=dict(opc=opc, pc=obl.mval(m, P.pc), off=obl.mval(m, P.off), imm=obl.mval(m, P.imm), regbyte=obl.mval(m, P.regbyte), we=str(m.eval(J.jm_we()))), friendly=True))
                        continue
                    fl = p.st.frames[0].locals
                    jm = fl['$jm']; off1 = jm.fields[J.off_field].t
                    d = simplify(off1 - off0)
                    if is_bv_value(d):
                        pr.out['syntactic'] = pr.out.get('syntactic', 0) + 1
                        if d.as_long() > 64: cands.append(dict(role=f'jit-compile/{name}/more-than-64-bytes', detail=f'an instruction emits {d.as_long()} bytes', model=dict(opc=opc), friendly=True))
                    else:
                        r, m = pr.prove(f'{name}:at-most-64-bytes', pc_, ULE(off1 - off0, 64), sample=f'{name}: one instruction emits at most 64 bytes')
                        if r == 'sat': cands.append(dict(role=f'jit-compile/{name}/more-than-64-bytes', detail='an instruction emits more than 64 bytes', model=dict(opc=opc), friendly=True))
                    # jumps recorded in this iteration lie inside the bytes emitted by it
                    for e in p.st.events:
                        if e[0] == 'jump':
                            jl = e[1].f[0].t; a = simplify(jl - off0); b = simplify(off1 - jl)
                            if is_bv_value(a) and is_bv_value(b) and is_bv_value(d):
                                pr.out['syntactic'] = pr.out.get('syntactic', 0) + 1
                                ok = a.as_long() <= d.as_long() and 4 <= b.as_long() <= d.as_long()
                            else:
                                r, m = pr.prove(f'{name}:fixup-inside-emitted-code', pc_, And(UGE(jl, off0), ULE(jl + 4, off1)), sample=f'{name}: recorded jump fix-up location + 4 <= code offset')
                                ok = r != 'sat'
                            # resolve_jumps: the target is a registered anchor or a valid index into pc_locs (n+1 entries)
                            tg = e[1].f[1].t
                            r, m = pr.prove(f'{name}:jump-target-resolvable', pc_, Or(*([tg == a for a in sorted(anchors)] + [And(tg >= 0, ULT(tg, n + 1))])), sample=f'{name}: the recorded jump target is an anchor or an index < n+1, so resolve_jumps cannot index out of pc_locs')
                            if r == 'sat': cands.append(dict(role=f'jit-compile/{name}/jump-target-not-resolvable', detail='resolve_jumps would index pc_locs out of bounds for this jump', model=dict(opc=opc, pc=obl.mval(m, P.pc), off=obl.mval(m, P.off), imm=obl.mval(m, P.imm), regbyte=obl.mval(m, P.regbyte), n=obl.mval(m, n)), friendly=True))
                            if not ok: cands.append(dict(role=f'jit-compile/{name}/fixup-outside-code', detail='jump fix-up location outside the emitted code', model=dict(opc=opc), friendly=True))
                    # classify the path by the write flag (literal in the path condition, else by query)
                    we = J.jm_we(); nwe = Not(we)
                    has_t = any(c.eq(we) for c in pc_); has_f = any(c.eq(nwe) for c in pc_)
                    if has_t and not has_f: by_we[True].append((p, d)); buffer_obligation(pr, J, name, pc_, off0, d, cands, inv)
                    elif has_f and not has_t: by_we[False].append((p, d))
                    else:
                        rt, _ = pr.check(pc_, [J.jm_we()]); rf, _ = pr.check(pc_, [Not(J.jm_we())])
                        if rt == 'sat': by_we[True].append((p, d)); buffer_obligation(pr, J, name, pc_ + [J.jm_we()], off0, d, cands, inv)
                        if rf == 'sat': by_we[False].append((p, d))
                # two-pass agreement: for the same instruction, offset, helpers the two passes advance the offset identically
                for (pt, ot) in by_we[True]:
                    for (pf, of_) in by_we[False]:
                        if is_bv_value(ot) and is_bv_value(of_) and ot.as_long() == of_.as_long():
                            pr.out['syntactic'] = pr.out.get('syntactic', 0) + 1; continue
                        both = [c for c in list(pt.st.pc) + list(pf.st.pc) if not mentions(c, 'jm.write_enabled') and not mentions(c, 'jm.contents.len')]
                        r0, _ = pr.check(both, [])
                        if r0 == 'unsat': continue
                        r, m = pr.prove(f'{name}:two-pass-agreement', both, ot == of_, sample=f'{name}: sizing pass and emitting pass advance the code offset by the same amount')
                        if r == 'sat': cands.append(dict(role=f'jit-compile/{name}/two-pass-disagreement', detail=f'the counting pass and the emitting pass emit different numbers of bytes ({of_} vs {ot})', model=dict(opc=opc, off=obl.mval(m, P.off), imm=obl.mval(m, P.imm), regbyte=obl.mval(m, P.regbyte)), friendly=True))
                for nb in foreign_program_reads(J, P, paths, pr, name, n_assumed)[:1]:
                    # not a C12 violation by itself (C12 is about panics and overruns): recorded; C03 / C08 act on it (engine/jitcontext.py)
                    pr.out.setdefault('context_dependent_emission', []).append(f'{name}: depends on the instruction at pc{nb["slot_delta"]:+d} (bytes {nb["bytes"]})')
                if by_we[True] and by_we[False]: pr.out['witnesses'] += 1
                else: pr.out['errors'].append(f'{name}: missing pass ({len(by_we[True])} emitting, {len(by_we[False])} sizing paths)')
                pr.out['programs'] += 1
            except Unsupported as e:
                pr.out['errors'].append(f'{name}: {e}')
        for fn in J.eng.used_funcs:
            if fn in mir.funcs: pr.out['functions'][fn] = mir.fn_hash(fn)
        return dict(out=pr.out, cands=cands)
    except Exception as e:
        return dict(out=dict(errors=[f'c12a worker crashed: {e}\n{traceback.format_exc()[-1500:]}']), cands=[])
