"""C09 -- each VM kind presents the documented execution context to the program.
(a) interpreter prelude (MIR): r1 and r10 at the first instruction; (b) the wrapper methods of src/lib.rs (MIR, `self`
symbolic): which buffers/offsets each VM kind hands to the interpreter, to the JIT-compiled function and to Cranelift
code, and the pointers EbpfVmFixedMbuff writes into its buffer; (c) the JIT prologue of each variant (x86sym): r1, r10,
the two stores of the fixed-metadata variant; (d) the Cranelift prelude (clifsym): r1 select, r10, stack slot."""
import json
from z3 import (BitVec, BitVecVal, BoolVal, And, Or, Not, If, ULT, ULE, UGT, UGE, Select, Concat, Extract, simplify, is_true, BVAddNoOverflow)
import common, mirsym, interp, libsym, obl, x86sym, clifsym, ref
from mirsym import Slice, Ptr, V, Enum, LazyObj, Agg
from ref import insn
from obl import mval
from common import Report
from driver import Driver


def le64(M, a): return Concat(*[Select(M, a + i) for i in range(7, -1, -1)])


def interp_prelude(rep, cands, timeout):
    mir, key = common.load_mir('std'); tt = common.type_table()
    I = interp.Interp(mir, tt, nranges=0, timeout_ms=timeout); pr = obl.Prover(timeout, common.seed()); S = I.S
    ps = I.prelude_paths()
    for p in ps:
        pc_ = list(p.st.pc)
        if p.kind != 'cut':
            r, m = pr.prove(f'interp-prelude:{p.kind}', pc_, BoolVal(False))
            if r == 'sat': cands.append(dict(role=f'interp/prelude/{p.kind}', detail=str(p.payload), model=None, friendly=True))
            continue
        fr = p.st.frames[0]; regs = [x.t for x in fr.locals[I.names['reg']].f]
        want_r1 = If(S.mbuff_len != 0, S.mbuff_base, If(S.mem_len != 0, S.mem_base, BitVecVal(0, 64)))
        for nm, goal in (('r1', regs[1] == want_r1), ('r10', regs[10] == S.stack_base + 512), ('pc0', fr.locals[I.names['insn_ptr']].t == 0),
                         ('depth0', fr.locals[I.names['stack_frame_idx']].t == 0), ('others-zero', And(*[regs[i] == 0 for i in (0, 2, 3, 4, 5, 6, 7, 8, 9)]))):
            r, m = pr.prove(f'interp-prelude:{nm}', pc_, goal, sample='interpreter entry: r1 = metadata buffer if non-empty, else packet if non-empty, else 0; r10 = top of the 512-byte stack')
            if r == 'sat': cands.append(dict(role=f'interp/prelude/{nm}', detail=f'{nm} at the first instruction is not the documented value', model=dict(mem_len=mval(m, S.mem_len), mbuff_len=mval(m, S.mbuff_len)), friendly=True))
    pr.witness('interp-prelude', list(ps[0].st.pc)); pr.out['functions'] = I.functions_encoded()
    rep.merge_counts(pr.out)


def ev(path, kind): return [e for e in path.st.events if e[0] == kind]


def two_stores(writes, a1, v1, a2, v2):
    """exactly two 8-byte data stores: (a1 := v1) and (a2 := v2). With non-overlapping slots (the statement's premise) the
    buffer then holds v1 at a1 and v2 at a2 -- that last step is arithmetic on disjoint intervals, not a solver query"""
    if len(writes) != 2 or any(w[2] != 8 for w in writes): return [('exactly-two-8-byte-stores', BoolVal(False))]
    (x1, y1, _), (x2, y2, _) = writes
    return [('data-pointer-written', And(x1 == a1, y1 == v1)), ('data-end-pointer-written', And(x2 == a2, y2 == v2))]


class FixedFields:
    """the symbols libsym's lazy `self` creates for EbpfVmFixedMbuff { parent, mbuff: MetaBuff { data_offset, data_end_offset, buffer } } (deterministic names)"""
    def __init__(self):
        self.off_a = BitVec('self.1.0', 64); self.off_b = BitVec('self.1.1', 64)
        self.buf = Slice(BitVec('self.1.2.ptr', 64), BitVec('self.1.2.len', 64), 'u8')


def replay_c09(c):
    """configuration-invariant counterexamples are replayed through the public API: configure, reload, and let a probe program read both slots"""
    md = c.get('model')
    if not md or 'new' not in md: return True, 'structural / native observation'
    if max(md['old'] + md['new']) > 32000: return None, f'offsets of the model too large to replay natively: {md}'
    d = Driver.get('dev'); r = d.request(dict(op='fixed_reload', old=md['old'], new=md['new'], reload=(md['meth'] == 'set_program'), timeout_s=20))
    c['replay'] = dict(request=md, native=r)
    if r.get('status') == 'panic': return True, f'native panic: {r.get("msg")}'
    if r.get('status') != 'ok': return None, str(r)
    bad = [x for x in r['transcript'] if not (x.endswith('as documented') or x.startswith('set_program: Ok'))]
    return (len(bad) > 0), f'native: {r["transcript"]}'


def fixed_config(rep, cands, timeout):
    """the configuration invariant the execution obligations assume for EbpfVmFixedMbuff (stored offsets are the configured ones and the internal
    buffer holds both 8-byte slots) is established by new() and re-established by every successful set_program(), from any previous configuration"""
    mir, key = common.load_mir('std'); tt = common.type_table(); pr = obl.Prover(max(timeout, 60000), common.seed())
    for meth in ('new', 'set_program'):
        L = libsym.LibRun(mir, tt, timeout); name = f'fixed::{meth}'
        try: paths = L.run('fixed', meth)
        except mirsym.Unsupported as e:
            pr.out['errors'].append(f'{name}: {e}'); continue
        base = 1 if meth == 'new' else 2
        a_off, a_end = L.args[base].t, L.args[base + 1].t; oks = 0
        for p in paths:
            pc_ = list(p.st.pc) + list(L.eng.ctx.get('lazy_ranges', [])) + [ULE(a_off, 1 << 40), ULE(a_end, 1 << 40)]
            if p.kind != 'return': continue
            res = p.payload
            if not (isinstance(res, Enum) and simplify(res.disc() == 0).eq(BoolVal(True))):
                r0, _ = pr.check(pc_, [res.disc() == 0]) if isinstance(res, Enum) else ('unsat', None)
                if r0 != 'sat': continue
                pc_ = pc_ + [res.disc() == 0]
            if meth == 'new': vmv = res.payload[0][0]; mb = vmv.f[1] if isinstance(vmv, Agg) else None
            else:
                sv = p.st.aux.get('final_locals', {}).get(L.func.params[0][0]); mb = sv.fields.get(1) if isinstance(sv, LazyObj) else None
            if mb is None: pr.out['errors'].append(f'{name}: cannot locate the metadata buffer in the post-state'); continue
            f = mb.f if isinstance(mb, Agg) else [mb.fields.get(i) for i in range(3)]
            FF = FixedFields()
            so = f[0].t if f[0] is not None else FF.off_a; se = f[1].t if f[1] is not None else FF.off_b; bl = f[2].len if f[2] is not None else FF.buf.len
            oks += 1
            goal = And(so == a_off, se == a_end, bl == If(UGE(a_off, a_end), a_off, a_end) + 8)
            r, m = pr.prove(f'{name}:configuration-invariant', pc_, goal, sample=f'{name}: Ok leaves data_offset/data_end_offset = the arguments and a buffer of max(offsets)+8 bytes, from any previous configuration')
            if r == 'sat':
                m = pr.refine([[ULE(a_off, 2000), ULE(a_end, 2000), ULE(FF.off_a, 2000), ULE(FF.off_b, 2000), Or(UGE(a_off, a_end + 8), UGE(a_end, a_off + 8))], [ULE(a_off, 30000), ULE(a_end, 30000), ULE(FF.off_a, 30000), ULE(FF.off_b, 30000)]], m)
                cands.append(dict(role=f'wrapper/{name}/configuration-invariant', detail=f'{name} can return Ok with stored offsets / buffer length that do not match the configured offsets '
                                  f'(old offsets {obl.mval(m, FF.off_a)}/{obl.mval(m, FF.off_b)}, new {obl.mval(m, a_off)}/{obl.mval(m, a_end)}, buffer {obl.mval(m, bl)} bytes)',
                                  model=dict(meth=meth, old=[obl.mval(m, FF.off_a), obl.mval(m, FF.off_b)], new=[obl.mval(m, a_off), obl.mval(m, a_end)]), friendly=True))
        if oks: pr.out['witnesses'] += 1
        else: pr.out['errors'].append(f'{name}: no Ok path (vacuous)')
        for fn in L.eng.used_funcs:
            if fn in mir.funcs: pr.out['functions'][fn] = mir.fn_hash(fn)
    rep.merge_counts(pr.out)


def wrappers(rep, cands, timeout, feature):
    mir, key = common.load_mir(feature); tt = common.type_table(); pr = obl.Prover(max(timeout, 60000), common.seed()); pr.fresh_mode = True
    def addr(x): return x.base if isinstance(x, Slice) else (x.addr if isinstance(x, Ptr) else x.t)
    def ln(x): return x.len
    for vm in ('mbuff', 'raw', 'nodata', 'fixed'):
        for meth, kind in (('execute_program', 'interp'), ('execute_program_jit', 'jit'), ('execute_program_cranelift', 'cranelift')):
            if (kind == 'cranelift') != (feature == 'cranelift'): continue
            L = libsym.LibRun(mir, tt, timeout)
            pre = []
            try: paths = L.run(vm, meth)
            except mirsym.Unsupported as e:
                pr.out['errors'].append(f'{vm}::{meth}: {e}'); continue
            a = L.args
            mem = a.get(1) if vm != 'nodata' else None
            mbuff_arg = a.get(2) if vm == 'mbuff' else None
            name = f'{vm}::{meth}'
            called = 0
            for p in paths:
                pc_ = list(p.st.pc) + list(L.eng.ctx.get('lazy_ranges', []))
                calls = ev(p, kind)
                if p.kind == 'panic':
                    # offsets near usize::MAX are outside the claim; with the buffer invariant no panic is reachable
                    inv = []
                    if vm == 'fixed':
                        if True:
                            FF = FixedFields(); off_a, off_b, buf = FF.off_a, FF.off_b, FF.buf
                            inv = [ULE(off_a, 1 << 40), ULE(off_b, 1 << 40), buf.len == If(UGE(off_a, off_b), off_a, off_b) + 8, BVAddNoOverflow(buf.base, buf.len, False)]
                            if mem is not None: inv.append(BVAddNoOverflow(mem.base, mem.len, False))
                    r, m = pr.prove(f'{name}:no-panic', pc_ + inv, BoolVal(False))
                    if r == 'sat': cands.append(dict(role=f'wrapper/{name}/panic', detail=str(p.payload), model=None, friendly=True))
                    continue
                if not calls:
                    if vm == 'fixed' and p.kind == 'return' and kind == 'interp':
                        # "on every execution": with the configuration invariant no execution ends before the engine is entered
                        FF = FixedFields()
                        r, m = pr.prove(f'{name}:engine-always-entered', pc_ + [ULE(FF.off_a, 1 << 40), ULE(FF.off_b, 1 << 40), FF.buf.len == If(UGE(FF.off_a, FF.off_b), FF.off_a, FF.off_b) + 8], BoolVal(False),
                                        sample=f'{name}: under the configuration invariant no path returns before the engine runs')
                        if r == 'sat': cands.append(dict(role=f'wrapper/{name}/returns-before-engine', detail=f'{name} can return without running the program although the buffer matches the configured offsets: {str(p.payload)[:120]}', model=None, friendly=True))
                    continue
                called += 1
                pr.out['obligations'] += 1
                if len(calls) != 1: cands.append(dict(role=f'wrapper/{name}/engine-called-{len(calls)}-times', detail='', model=None, friendly=True)); continue
                pr.out['discharged'] += 1
                args = calls[0][1]
                goals = []
                if kind == 'interp':
                    gm, gb = args[2], args[3]
                    if vm == 'mbuff': goals = [('mem', And(gm.base == mem.base, gm.len == mem.len)), ('mbuff', And(gb.base == mbuff_arg.base, gb.len == mbuff_arg.len))]
                    if vm == 'raw': goals = [('mem', And(gm.base == mem.base, gm.len == mem.len)), ('mbuff-empty', gb.len == 0)]
                    if vm == 'nodata': goals = [('mem-empty', gm.len == 0), ('mbuff-empty', gb.len == 0)]
                    if vm == 'fixed':
                        FF = FixedFields(); off_a, off_b, buf = FF.off_a, FF.off_b, FF.buf
                        M1 = p.st.mem
                        sep = Or(UGE(off_a, off_b + 8), UGE(off_b, off_a + 8))
                        goals = [('mem', And(gm.base == mem.base, gm.len == mem.len)), ('mbuff-is-internal-buffer', And(gb.base == buf.base, gb.len == buf.len))] + two_stores(p.st.aux.get('writes', ()), buf.base + off_a, mem.base, buf.base + off_b, mem.base + mem.len)
                elif kind == 'jit':
                    j = args[1:]      # (mbuff ptr, mbuff len, mem ptr, mem len, off a, off b)
                    A = [addr(x) if not isinstance(x, V) else x.t for x in j]
                    memptr = If(mem.len == 0, BitVecVal(0, 64), mem.base) if mem is not None else BitVecVal(0, 64)
                    memlen = mem.len if mem is not None else BitVecVal(0, 64)
                    goals = [('mem-pointer-or-null', A[2] == memptr), ('mem-len', A[3] == memlen)]
                    if vm == 'mbuff': goals += [('mbuff', And(A[0] == mbuff_arg.base, A[1] == mbuff_arg.len))]
                    if vm in ('raw', 'nodata'): goals += [('mbuff-len-0', A[1] == 0)]
                    if vm == 'fixed':
                        FF = FixedFields(); goals += [('mbuff-is-internal-buffer', And(A[0] == FF.buf.base, A[1] == FF.buf.len)), ('offsets', And(A[4] == FF.off_a, A[5] == FF.off_b))]
                elif kind == 'cranelift':
                    A = [addr(x) if not isinstance(x, V) else x.t for x in args[1:]] if len(args) == 5 else [addr(x) if not isinstance(x, V) else x.t for x in args]
                    memptr = If(mem.len == 0, BitVecVal(0, 64), mem.base) if mem is not None else BitVecVal(0, 64)
                    memlen = mem.len if mem is not None else BitVecVal(0, 64)
                    goals = [('mem-pointer-or-null', A[0] == memptr), ('mem-len', A[1] == memlen)]
                    if vm == 'mbuff': goals += [('mbuff', And(A[2] == mbuff_arg.base, A[3] == mbuff_arg.len))]
                    if vm in ('raw', 'nodata'): goals += [('mbuff-len-0', A[3] == 0)]
                    if vm == 'fixed':
                        FF = FixedFields(); off_a, off_b, buf = FF.off_a, FF.off_b, FF.buf
                        M1 = p.st.mem; sep = Or(UGE(off_a, off_b + 8), UGE(off_b, off_a + 8))
                        goals += [('mbuff-is-internal-buffer', And(A[2] == buf.base, A[3] == buf.len))] + two_stores(p.st.aux.get('writes', ()), buf.base + off_a, mem.base, buf.base + off_b, mem.base + mem.len)
                for gname, g in goals:
                    r, m = pr.prove(f'{name}:{gname}', pc_, g, sample=f'{name}: passes {gname} to the {kind} engine for every packet (incl. empty) and every configuration')
                    if r == 'sat': cands.append(dict(role=f'wrapper/{name}/{gname}', detail=f'{name} hands something else than the documented {gname} to the {kind} engine', model=None, friendly=True))
            if not called: pr.out['errors'].append(f'{name}: no path reaches the {kind} engine (vacuous)')
            else: pr.out['witnesses'] += 1
            for fn in L.eng.used_funcs:
                if fn in mir.funcs: pr.out['functions'][fn] = mir.fn_hash(fn)
    rep.merge_counts(pr.out)


def jit_prologues(rep, cands, timeout):
    """x86sym from the entry of the generated function to the first eBPF instruction, for each (use_mbuff, update_data_ptr) variant"""
    d = Driver.get('dev'); pr = obl.Prover(max(timeout, 60000), common.seed()); pr.fresh_mode = True
    prog = insn(0xb7, 0) + insn(0x95)
    for vm, fixed in (('mbuff', None), ('raw', None), ('nodata', None), ('fixed', (8, 24)), ('fixed', (0x40, 0x8)), ('fixed', (0, 4096))):
        r = d.request(dict(op='compile', vm=vm, prog=prog.hex(), engine='jit', helpers=[], fixed=list(fixed) if fixed else None))
        name = f'jit-prologue/{vm}' + (f'{fixed}' if fixed else '')
        if r.get('status') != 'ok': pr.out['errors'].append(f'{name}: compile {r.get("status")} {r.get("msg")}'); continue
        code = bytes.fromhex(r['code']); locs = r['pc_locs']
        X = x86sym.X86(code, timeout); st = x86sym.fresh_state(); X0 = dict(st.r); X.rsp0 = X0['rsp']; st.ip = 0
        st.pc = [UGE(X0['rsp'], 1 << 21), ULE(X0['rsp'], 1 << 62)]
        if vm == 'fixed':      # the internal buffer is away from the native stack and the two slots fit (wrapper obligations)
            st.pc += [Or(ULE(X0['rdi'] + X0['rsi'], X0['rsp'] - 8192), UGE(X0['rdi'], X0['rsp'] + 4096)), ULE(X0['r8'], 1 << 40), ULE(X0['r9'], 1 << 40), ULE(X0['rdi'], 1 << 62),
                      UGE(X0['rsi'], X0['r8'] + 8), UGE(X0['rsi'], X0['r9'] + 8), ULE(X0['rsi'], 1 << 41), Or(UGE(X0['r8'], X0['r9'] + 8), UGE(X0['r9'], X0['r8'] + 8))]
        try: xs = X.run(st, {locs[0]})
        except x86sym.Undecodable as e:
            pr.out['errors'].append(f'{name}: {e}'); continue
        if len(xs) != 1 or xs[0].ip != locs[0]: pr.out['errors'].append(f'{name}: prologue does not reach the first instruction on a single path'); continue
        s = xs[0]; pc_ = list(s.pc)
        want_r1 = X0['rdi'] if vm in ('mbuff', 'fixed') else X0['rdx']
        goals = [('r1', s.r['rdi'] == want_r1), ('r10-top-of-stack-area', s.r['rbp'] == X0['rsp'] - 40), ('512-bytes-reserved', s.r['rsp'] == X0['rsp'] - 40 - 512 - 8),
                 ('packet-pointer-kept-for-ldabs', s.r['r10'] == X0['rdx'])]
        if vm == 'fixed':
            goals += two_stores(s.writes, X0['rdi'] + X0['r8'], X0['rdx'], X0['rdi'] + X0['r9'], X0['rdx'] + X0['rcx'])
        for (oname, cnd, ipx) in s.obligations: goals.append((oname, cnd))
        for gname, g in goals:
            rr, m = pr.prove(f'{name}:{gname}', pc_, g, sample=f'{name}: {gname} for all argument register values')
            if rr == 'sat': cands.append(dict(role=f'{name.split("(")[0]}/{gname}', detail=f'{name}: {gname} does not hold', model=None, friendly=True))
        pr.out['programs'] += 1
    rep.merge_counts(pr.out)


def clif_prelude(rep, cands, timeout):
    d = Driver.get('dev', features=('std', 'cranelift')); pr = obl.Prover(timeout, common.seed())
    # probe programs return r1 / r10 / r1 + nothing else; the CLIF is executed with symbolic parameters
    for what, prog in (('r1', insn(0xbf, 0, 1) + insn(0x95)), ('r10', insn(0xbf, 0, 10) + insn(0x95))):
        r = d.request(dict(op='compile', vm='mbuff', prog=prog.hex(), engine='cranelift', helpers=[]))
        if r.get('status') != 'ok': pr.out['errors'].append(f'clif-prelude {what}: compile {r.get("status")}'); continue
        C = clifsym.Clif(r['clif'], timeout)
        sb = BitVec('clif_stack_base', 64); C.slot_base = {ss: sb for ss in C.F.slots}
        ps = [BitVec(n, 64) for n in ('mem_ptr', 'mem_len', 'mbuff_ptr', 'mbuff_len')]
        from z3 import Array, BitVecSort
        rets, traps = C.execute(Array('M0', BitVecSort(64), BitVecSort(8)), ps, [])
        for cs in rets:
            v = cs.block[1]
            if what == 'r1': g = v == If(ps[3] != 0, ps[2], ps[0])
            else: g = v == sb + 512
            rr, m = pr.prove(f'clif-prelude:{what}', cs.pc, g, sample=f'Cranelift prelude: {what} = ' + ('metadata buffer if its length is non-zero, else the packet pointer' if what == 'r1' else 'top of the 512-byte stack slot'))
            if rr == 'sat': cands.append(dict(role=f'clif-prelude/{what}', detail=f'{what} at entry is not the documented value', model=None, friendly=True))
        pr.out['obligations'] += 1
        if list(C.F.slots.values()) == [512]: pr.out['discharged'] += 1
        else: cands.append(dict(role='clif-prelude/stack-slot', detail=f'stack slots {C.F.slots}', model=None, friendly=True))
    rep.merge_counts(pr.out)


def native_probes(rep, cands):
    """replay-style confirmation through the public API: r1 and the fixed buffer contents as seen by a probe program, all engines"""
    n = 0
    for feats, engines in ((('std', 'cranelift'), ('interp', 'jit', 'cranelift')),):
        d = Driver.get('dev', features=feats)
        for eng in engines:
            for vm, fixed in (('mbuff', None), ('raw', None), ('nodata', None), ('fixed', (8, 24)), ('fixed', (24, 8)), ('fixed', (0, 8)), ('fixed', (4000, 16))):
                for mem in (b'', b'\x01\x02\x03', bytes(range(64))):
                    if vm == 'nodata' and mem: continue
                    mb = bytes(32) if vm == 'mbuff' else b''
                    r1 = d.run(insn(0xbf, 0, 1) + insn(0x95), vm=vm, mem=mem, mbuff=mb, engine=eng, fixed=fixed)
                    n += 1; rep.obligations += 1
                    if r1.get('status') != 'ok': cands.append(dict(role=f'native/{vm}/{eng}/probe-failed', detail=str(r1.get('msg', r1.get('status'))), model=None, friendly=True)); continue
                    want = None
                    if vm == 'mbuff': want = r1['mbuff_addr']
                    if vm == 'raw': want = r1['mem_addr'] if mem else 0
                    if vm == 'nodata': want = 0
                    ok = want is None or r1['value'] == want
                    if vm == 'fixed':
                        a, b = fixed
                        pa = d.run(insn(0x79, 0, 1, a) + insn(0x95), vm=vm, mem=mem, engine=eng, fixed=fixed); pb = d.run(insn(0x79, 0, 1, b) + insn(0x95), vm=vm, mem=mem, engine=eng, fixed=fixed)
                        if mem: ok = pa.get('status') == 'ok' and pb.get('status') == 'ok' and pa['value'] == pa['mem_addr'] and pb['value'] == pb['mem_addr'] + len(mem)
                        else: ok = pa.get('status') == 'ok' and pb.get('status') == 'ok' and pa['value'] == pb['value']       # empty packet: start == end
                    if ok: rep.discharged += 1
                    else: cands.append(dict(role=f'native/{vm}/{eng}/context', detail=f'{vm} VM under {eng} with a {len(mem)}-byte packet, offsets {fixed}: r1/buffer contents differ from the documented context', model=None, friendly=True))
    rep.extra['native_probe_runs'] = n


def run():
    rep = Report('C09', 'model_checking', '5/C09')
    timeout = 20000 if common.tier() == 'quick' else 120000
    cands = []
    interp_prelude(rep, cands, timeout)
    fixed_config(rep, cands, timeout)
    wrappers(rep, cands, timeout, 'std')
    wrappers(rep, cands, timeout, 'cranelift')
    jit_prologues(rep, cands, timeout)
    clif_prelude(rep, cands, timeout)
    native_probes(rep, cands)
    rep.assumptions += ['wrapper methods: `self` is a lazily materialised symbolic struct (field types from the MIR projections); the engines behind the wrappers are stubs that record their arguments',
                        'EbpfVmFixedMbuff: offsets <= 2^40 and buffer length = max(offsets)+8 (established by new/set_program, see C10); overlapping offsets are outside the statement',
                        'metadata VM with an EMPTY metadata buffer: the interpreter falls back to the packet address while compiled code passes the (dangling) buffer pointer - the statement does not define r1 for that case; not claimed',
                        'JIT prologue: argument registers symbolic; the relation to the wrapper arguments is the composition of the two obligation groups',
                        'native probes (r1 and buffer contents through the public API, 3 packet sizes x 4 offset pairs x 3 engines) are a concrete confirmation, not the deciding step']
    rep.bounds = dict(vm_kinds=4, engines=3, packets='all (symbolic pointer/length, incl. empty)', offsets='all non-overlapping pairs <= 2^40 (wrappers); 3 concrete pairs for the JIT prologue bytes')
    return rep.finish(cands, replay_c09)


def replay(path):
    d = json.load(open(path)); print(json.dumps(d, indent=1)); return 0
