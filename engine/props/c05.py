"""C05 -- a program accepted by the default verifier can never crash the interpreter.
For each of the 256 opcode byte values: the *real* verifier's acceptance formula A(pc) (extracted from the MIR of
verifier::check, not transcribed) is the assumption of the interpreter's loop iteration (MIR of execute_program); the
obligations are: no panic / unreachable on any path, and the loop invariant is preserved (pc' inside the program and on
an instruction start, depth <= 8, frame-pointer equation, saved return addresses valid)."""
import traceback, json
from z3 import (ZeroExt, BitVecVal, BoolVal, BitVecSort, BoolSort, Function, And, Or, Not, If, Implies, ULT, ULE, UGT, UGE, SignExt, simplify, is_true, is_false)
import common, mirsym, verif, interp, spec, obl, icheck, replaylib
from common import Report


def size_of(us):
    d, v = us
    return If(d == 0, BitVecVal(256, 64), ZeroExt(48, v))


def sel_frame(frames, idx, f):
    v = f(frames[7])
    for j in range(6, -1, -1): v = If(idx == j, f(frames[j]), v)
    return v


def fp_step(P, Q):
    """the frame-pointer equation r10 = top - sum_{j<depth} size_j is preserved if the step is one of three shapes
    (same depth / push / pop) -- see fp_lemma() for the solver proof that each shape preserves the equation"""
    def same_below(limit):
        return And(*[Implies(ULT(BitVecVal(j, 64), limit), size_of(Q.frames[j][2]) == size_of(P.frames[j][2])) for j in range(8)])
    stay = And(Q.sfi == P.sfi, Q.regs[10] == P.regs[10], same_below(P.sfi))
    push = And(Q.sfi == P.sfi + 1, ULT(P.sfi, 8), Q.regs[10] == P.regs[10] - sel_frame(Q.frames, P.sfi, lambda fr: size_of(fr[2])), same_below(P.sfi))
    pop = And(Q.sfi == P.sfi - 1, UGT(P.sfi, 0), Q.regs[10] == P.regs[10] + sel_frame(P.frames, P.sfi - 1, lambda fr: size_of(fr[2])), same_below(P.sfi - 1))
    return Or(stay, push, pop)


def fp_lemma(pr, I):
    """Inv(r10, d, sizes) and one of the three step shapes => Inv(r10', d', sizes'), for every depth d = 0..8, over
    abstract frame sizes.  The hypotheses that are equations are applied by substitution (r10 := top - sum, unchanged
    sizes := same symbols) so each case is one associativity/commutativity identity for the solver."""
    from z3 import BitVec
    top = BitVec('L_top', 64)
    sz = [BitVec(f'L_s{j}', 64) for j in range(9)]; new = BitVec('L_new', 64)
    def tot(sizes, dep):
        t = BitVecVal(0, 64)
        for j in range(dep): t = t + sizes[j]
        return t
    for dep in range(9):
        r = top - tot(sz, dep)                                  # Inv at depth dep
        # stay: r10' = r10, depth' = depth, sizes below depth unchanged
        pr.prove(f'frame-pointer-lemma:stay:depth={dep}', [], r == top - tot(sz, dep))
        if dep < 8:                                             # push: r10' = r10 - size'(dep), depth' = dep + 1
            sz2 = sz[:dep] + [new]
            pr.prove(f'frame-pointer-lemma:push:depth={dep}', [], r - new == top - tot(sz2, dep + 1), sample='lemma: r10 - size = top - (sum + size) (push preserves the frame-pointer equation)' if dep == 2 else None)
        if dep > 0:                                             # pop: r10' = r10 + size(dep - 1), depth' = dep - 1
            pr.prove(f'frame-pointer-lemma:pop:depth={dep}', [], r + sz[dep - 1] == top - tot(sz, dep - 1))


def worker(args):
    opcodes, profile, timeout_ms, sd = args
    try:
        mir, key = common.load_mir('std'); tt = common.type_table()
        V = verif.Verif(mir, tt, timeout_ms)
        I = interp.Interp(mir, tt, nranges=1, overflow_panics=(profile == 'dev'), timeout_ms=timeout_ms)
        pr = obl.Prover(timeout_ms, sd)
        alen = V.a_len()
        inS = Function('inS', BitVecSort(64), BoolSort())
        cands = []; arms = {}; rejected = 0
        if 0 in opcodes: fp_lemma(pr, I)
        for opc in opcodes:
            name = spec.opname(opc)
            try:
                A, Apanic, VP = V.accept_formula(opc)
                A = simplify(A)
                st, P = I.make_pre(opc)
                n = P.prog_len / 8
                # is the opcode acceptable at all?
                r, _ = pr.check(list(st.pc) + [alen, ULT(P.pc, n)], [A])
                if r == 'unsat':
                    rejected += 1; arms[opc] = 'rejected-by-verifier'; pr.out['obligations'] += 1; pr.out['discharged'] += 1
                    continue
                if r == 'unknown': pr.out['inconclusive'].append(f'{name}: acceptability'); continue
                k = spec.classify(opc)
                kk = k[0] if k else None
                tgt = None
                if kk in ('ja', 'jcond'): tgt = P.pc + 1 + SignExt(48, P.off)
                if kk == 'call': tgt = P.pc + 1 + SignExt(32, P.imm)
                inv = [alen, ULT(P.pc, n), A, inS(P.pc)]
                # definitional facts about S (instruction starts) in an accepted program -- paper lemma, instantiated
                inv.append(inS(P.pc + 2) if opc == 0x18 else inS(P.pc + 1))
                if tgt is not None: inv.append(Implies(And(ULT(tgt, n), V.opc_at(tgt) != 0), inS(tgt)))
                # invariant part about suspended frames: return addresses are instruction starts inside the program
                for j, (ra, sv, us) in enumerate(P.frames):
                    inv.append(Implies(ULT(BitVecVal(j, 64), P.sfi), And(ULT(ra, n), inS(ra))))
                st.pc += [simplify(c) for c in inv]
                paths = I.step_paths(st)
                seen = set(); cnt = dict(cut=0, ret=0, panic=0)
                def cand(role, detail, m, p):
                    if role in seen: return
                    m2 = pr.refine(icheck.friendly_tiers(P, kk), m)
                    if not pr.refined_ok: m2 = pr.refine(icheck.depth_tiers(P, kk), m)        # exists only at call depth > 0: replayed behind local calls
                    if pr.refined_ok: seen.add(role)
                    cands.append(dict(role=role, detail=detail, opcode=opc, profile=profile, model=icheck.model_dict(m2, P), friendly=pr.refined_ok))
                for p in paths:
                    pc_ = list(p.st.pc)
                    if p.kind in ('panic', 'ub-unreachable', 'diverge'):
                        cnt['panic'] += 1
                        msg = p.payload[0] if p.kind == 'panic' else p.kind
                        r, m = pr.prove(f'{name}:no-crash:{icheck.short(msg)}', pc_, BoolVal(False), sample=f'{name}: accepted by the real verifier formula => no panic path')
                        if r == 'sat': cand(f'interp/{name}/crash:{icheck.short(msg)}', f'{p.kind} reachable for a verifier-accepted instruction ({p.payload})', m, p)
                    elif p.kind == 'return': cnt['ret'] += 1
                    elif p.kind == 'cut':
                        cnt['cut'] += 1
                        Q = I.post(p)
                        goals = [('pc-inside-program', ULT(Q.pc, n)), ('pc-on-instruction-start', inS(Q.pc)), ('depth<=8', ULE(Q.sfi, 8)),
                                 ('frame-pointer-step', fp_step(P, Q))]
                        same_depth = Q.sfi.eq(P.sfi)
                        for j, (ra, sv, us) in enumerate(Q.frames):
                            if same_depth and ra.eq(P.frames[j][0]):        # literally the assumed invariant: discharged syntactically
                                pr.out['obligations'] += 1; pr.out['discharged'] += 1; continue
                            goals.append((f'return-address-{j}-valid', Implies(ULT(BitVecVal(j, 64), Q.sfi), And(ULT(ra, n), inS(ra)))))
                        if same_depth and Q.regs[10].eq(P.regs[10]) and all(qf[2][0].eq(pf[2][0]) and qf[2][1].eq(pf[2][1]) for qf, pf in zip(Q.frames, P.frames)):
                            goals = [g for g in goals if g[0] != 'frame-pointer-step']; pr.out['obligations'] += 1; pr.out['discharged'] += 1
                        if kk in ('call', 'exit') and 'frame-pointer-step' in dict(goals):      # case split on the depth for the frame obligations
                            g0 = dict(goals)['frame-pointer-step']; goals = [g for g in goals if g[0] != 'frame-pointer-step']
                            goals += [(f'frame-pointer-step@depth{dep}', Implies(P.sfi == dep, g0)) for dep in range(9)]
                        for gname, g in goals:
                            r, m = pr.prove(f'{name}:inv:{gname}', pc_, g, sample=f'{name}: Continue => {gname}' if gname.startswith('pc') else None)
                            if r == 'sat': cand(f'interp/{name}/invariant:{"return-address-valid" if "return-address" in gname else gname.split("@")[0]}', f'loop invariant "{gname}" not preserved', m, p)
                arms[opc] = cnt
                good = [p for p in paths if p.kind in ('cut', 'return')]
                if good: pr.witness(f'{name}:path', list(good[0].st.pc))
                else: pr.out['errors'].append(f'{name}: accepted opcode without any non-crashing path (vacuous?)')
                cuts = [p for p in paths if p.kind == 'cut']
                if cuts: pr.twin(f'{name}:pc<n-1', list(cuts[0].st.pc), ULT(I.post(cuts[0]).pc + 1, n))
                pr.out['programs'] += 1
            except mirsym.Unsupported as e:
                pr.out['errors'].append(f'{name} ({opc:#x}): unsupported MIR construct: {e}')
        fe = dict(I.functions_encoded()); fe.update(V.functions_encoded())
        pr.out['functions'] = fe
        pr.out['stubs'] = sorted(I.stubs_used)
        return dict(out=pr.out, cands=cands, arms=arms, rejected=rejected)
    except Exception as e:
        return dict(out=dict(errors=[f'worker crashed: {e}\n{traceback.format_exc()}']), cands=[], arms={}, rejected=0)


def replay_c05(c):
    """whole program through the public API: accepted by the real verifier (EbpfVm*::new) and then crashing the interpreter"""
    from driver import Driver
    md = c.get('model')
    if md is None: return True, 'structural'
    b, why = replaylib.build_interp_program(md)
    if b is None: return None, why
    k = spec.classify(md['opc'])
    helpers = [(md['imm'] & 0xffffffff, 'h1')] if k and k[0] == 'call' and md['src'] == 0 else []
    info = []
    for prof in (['dev'] if c.get('profile', 'dev') == 'dev' else ['release']):
        nat = Driver.get(prof).run(b['prog'], vm='mbuff', mem=b['mem'], mbuff=b['mbuff'], extra=b['extra'], engine='interp', helpers=helpers, allowed=b['allowed'], patch=b['patch'])
        c['replay'] = dict(prog=b['prog'].hex() if len(b['prog']) < 4096 else f'<{len(b["prog"])//8} slots>', patch=b['patch'], profile=prof, native={k2: v for k2, v in nat.items() if k2 in ('status', 'value', 'msg', 'sig')})
        if nat.get('status') in ('panic', 'signal', 'driver_died'): return True, f'[{prof}] accepted by the verifier, then the interpreter {nat["status"]}: {nat.get("msg", nat.get("sig"))}'
        if nat.get('status') == 'load_err': return None, f'[{prof}] the replay program is rejected by the verifier: {nat.get("msg")}'
        info.append(f'[{prof}] native run: {nat.get("status")}')
    return False, '; '.join(info)


def run():
    import multiprocessing as mp
    rep = Report('C05', 'model_checking', '5/C05')
    timeout = 20000 if common.tier() == 'quick' else 120000
    common.load_mir('std')
    ops = list(range(256)); nj = min(common.jobs(), 16)
    cands = []
    for profile in ('dev', 'release'):
        with mp.Pool(nj) as pool:
            res = pool.map(worker, [(ops[i::nj], profile, timeout, common.seed()) for i in range(nj)])
        arms = {}
        for r in res:
            rep.merge_counts(r['out']); cands += r['cands']; arms.update(r['arms'])
            for s in r['out'].get('stubs', []):
                if 'stub: ' + s not in rep.assumptions: rep.assumptions.append('stub: ' + s)
        if len(arms) != 256: rep.machinery_errors.append(f'only {len(arms)} of 256 opcode values handled ({profile})')
        acc = [o for o, v in arms.items() if v != 'rejected-by-verifier']
        rep.extra.setdefault('accepted_opcodes', {})[profile] = len(acc)
        rep.extra.setdefault('rejected_opcodes', {})[profile] = 256 - len(acc)
        want = set(spec.VERIFIER_OK)
        if set(acc) != want: rep.machinery_errors.append(f'verifier formula accepts opcode set differing from the 122 documented ones: extra {sorted(set(acc) - want)}, missing {sorted(want - set(acc))} (see C06)')
    rep.assumptions += interp.Interp.ASSUMPTION_TEXT + [
        'A(pc): the extracted acceptance condition of verifier::check at index pc, A_len: the extracted Ok condition of check_prog_len',
        'paper lemma used through instances: in an accepted program every position that is not an instruction start is the second half of a wide load and has opcode 0',
        'induction over executed instructions from pc = 0, depth 0 (paper step); helpers that themselves panic and non-termination are outside the claim']
    rep.bounds = dict(opcode_bytes=256, pc='[0, 1,000,000)', program_length='symbolic', registers='all', call_depth='0..8', steps='1 (inductive)', profiles=['dev', 'release'])
    return rep.finish(cands, replay_c05)


def replay(path):
    d = json.load(open(path)); print(json.dumps(d, indent=1)); return 0
