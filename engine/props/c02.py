"""C02 -- the interpreter confines every load, store and atomic add to packet, metadata buffer, stack, registered ranges."""
import common, icheck, spec, replaylib, interp
from common import Report

MEM_KINDS = ('ldabs', 'ldind', 'ldx', 'st', 'stx', 'xadd')


def run():
    rep = Report('C02', 'model_checking', '5/C02')
    t = common.tier()
    nranges = 2 if t == 'quick' else 3
    timeout = 20000 if t == 'quick' else 120000
    ops = [o for o in spec.VERIFIER_OK if spec.classify(o)[0] in MEM_KINDS]
    cands = []
    for profile in ['dev', 'release']:
        res = icheck.run_sharded(ops, ['C02'], profile, nranges, timeout)
        arms = {}
        for r in res:
            rep.merge_counts(r['out']); cands += r['cands']; arms.update(r['stats'])
            for s in r['out'].get('stubs', []):
                if 'stub: ' + s not in rep.assumptions: rep.assumptions.append('stub: ' + s)
        missing = [spec.opname(o) for o in ops if o not in arms]
        if missing: rep.machinery_errors.append(f'arms not explored ({profile}): {missing}')
        rep.extra.setdefault('arms_explored', {})[profile] = len(arms)
        rep.extra.setdefault('paths', {})[profile] = {k: sum(a[k] for a in arms.values()) for k in ('cut', 'ret_ok', 'ret_err', 'panic')}
    rep.assumptions += interp.Interp.ASSUMPTION_TEXT + [
        'the instruction at pc satisfies the register/offset well-formedness facts of C06',
        'region bases and lengths are symbolic: empty packet, absent metadata buffer, 0..K registered ranges, address 0 and 2^64-k are inside the quantifier',
        'registered ranges overlapping the interpreter\'s own Rust stack frame are outside the model (registers and call frames are not in flat memory)']
    rep.bounds = dict(access_instructions=len(ops), widths='1,2,4,8', effective_addresses='all 64-bit', registered_ranges=nranges,
                      steps='1 (inductive step from an arbitrary loop-head state)', per_query_timeout_ms=timeout)
    return rep.finish(cands, replaylib.replay_interp)


def replay(path):
    return replaylib.replay_file(path)
