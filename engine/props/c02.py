"""C02 -- the interpreter confines every load, store and atomic add to packet, metadata buffer, stack, registered ranges."""
import common, icheck, spec, replaylib, interp, obl, libsym, mirsym, ref
from z3 import BitVec, And
from mirsym import V, Agg, Ref, LazyObj
from ref import insn, lddw
from common import Report
from driver import Driver

MEM_KINDS = ('ldabs', 'ldind', 'ldx', 'st', 'stx', 'xadd')


def _range_fields(eng, st, v):
    """(start, end) terms of a Range<u64> value as the callee sees it"""
    v = eng.deref(st, v) if isinstance(v, Ref) else v
    if isinstance(v, Agg) and len(v.f) == 2 and all(isinstance(x, V) for x in v.f): return v.f[0].t, v.f[1].t
    return None


def registration(rep, cands, timeout):
    """'an address range registered as allowed memory': the set the interpreter consults is exactly the set of registered ranges.
    (a) register_allowed_memory(r), for every VM kind and every r (symbolic start/end), performs exactly one container operation: the insertion
    of r itself - start and end unchanged - into the VM's `allowed_memory` set, on its only path;  (b) execute_program hands that very field to
    the interpreter.  Together with check_mem's obligations over K symbolic ranges this covers any registration history (HashSet::insert trusted).
    A method body that is no longer a single insertion cannot be encoded this way; it is then decided by the bounded native family below."""
    mir, key = common.load_mir('std'); tt = common.type_table(); pr = obl.Prover(timeout, common.seed())
    shape_ok = True
    for vm in ('mbuff', 'fixed', 'raw', 'nodata'):
        rs, re_ = BitVec('reg_start', 64), BitVec('reg_end', 64)
        try:
            L = libsym.LibRun(mir, tt, timeout)
            paths = L.run(vm, 'register_allowed_memory', extra_args={1: Agg([V(rs, 'u64'), V(re_, 'u64')], 'std::ops::Range<u64>', 'struct')})
            ok = len(paths) >= 1
            for p in paths:
                ev = p.st.events
                if p.kind != 'return' or len(ev) != 1 or ev[0][0] != 'insert' or not isinstance(ev[0][1][0], Ref) or 'HashSet<' not in str(ev[0][1][0].proj[-1]) or 'Range<u64>' not in str(ev[0][1][0].proj[-1]):
                    ok = False; continue
                fl = _range_fields(L.eng, p.st, ev[0][1][1])
                if fl is None: ok = False; continue
                r, m = pr.prove(f'register/{vm}/inserted-range-is-argument', list(p.st.pc), And(fl[0] == rs, fl[1] == re_))
                if r == 'sat':
                    cands.append(dict(role=f'register/{vm}/range-altered', detail=f'register_allowed_memory({obl.mval(m, rs):#x}..{obl.mval(m, re_):#x}) registers {obl.mval(m, fl[0]):#x}..{obl.mval(m, fl[1]):#x}',
                                      model=None, native_family=True, friendly=True))
            pr.out['obligations'] += 1
            if ok: pr.out['discharged'] += 1
            else: shape_ok = False
            set_field = [str(e[1][0].proj) for p in paths for e in p.st.events if e[0] == 'insert' and isinstance(e[1][0], Ref)]
            # (b) the interpreter receives the same field
            L2 = libsym.LibRun(mir, tt, timeout); got = False
            for p in L2.run(vm, 'execute_program'):
                for k, a in p.st.events:
                    if k == 'interp':
                        pr.out['obligations'] += 1; got = True
                        if isinstance(a[-1], Ref) and str(a[-1].proj) in set_field: pr.out['discharged'] += 1
                        else: shape_ok = False
            if not got: shape_ok = False
            for fn in list(L.eng.used_funcs) + list(L2.eng.used_funcs):
                if fn in mir.funcs: pr.out['functions'][fn] = mir.fn_hash(fn)
        except mirsym.Unsupported as e:
            shape_ok = False; rep.extra.setdefault('registration_not_encodable', []).append(f'{vm}: {str(e)[:160]}')
    rep.merge_counts(pr.out)
    found = native_registration_family(rep, cands)
    if not shape_ok and not found:
        rep.machinery_errors.append('register_allowed_memory / execute_program are not the single-insertion shape the registration obligation encodes, and the bounded native family shows no deviation: ' + '; '.join(rep.extra.get('registration_not_encodable', []))[:300])


def native_registration_family(rep, cands):
    """bounded native complement (enumerated, not sampled): registration histories of two ranges inside one caller buffer (gaps 0, 1, 2, 8 bytes, overlapping,
    nested, both orders) x one load or store of every width at every offset around them, on the interpreter of every VM kind that takes the call.
    Only unambiguous deviations count: an access that touches a byte outside every registered range but is carried out, or one that lies inside a single
    registered range but is refused (an access straddling two adjoining ranges is not judged)."""
    d = Driver.get('dev'); n = 0; found = 0
    A = (16, 8)
    seconds = [(24, 8), (25, 8), (26, 8), (32, 8), (20, 8), (18, 2), (7, 8), (6, 8), (0, 8)]
    for vm in ('mbuff', 'raw'):
        for B in seconds:
            for order in ((A, B), (B, A)):
                allowed = [('extra', o, l) for o, l in order]
                for w, ldop, stop in ((1, 0x71, 0x72), (2, 0x69, 0x6a), (4, 0x61, 0x62), (8, 0x79, 0x7a)):
                    for off in range(0, 44 - w):
                        inside_one = any(o <= off and off + w <= o + l for o, l in order)
                        outside_any = any(not any(o <= b < o + l for o, l in order) for b in range(off, off + w))
                        if not inside_one and not outside_any: continue        # straddles two adjoining ranges: not judged
                        for kind, prog in (('load', lddw(1, 0) + insn(ldop, 0, 1, 0) + insn(0xb7, 0, 0, 0, 1) + insn(0x95)),
                                           ('store', lddw(1, 0) + insn(stop, 1, 0, 0, 0x5a) + insn(0xb7, 0, 0, 0, 1) + insn(0x95))):
                            if kind == 'store' and (off + w) % 3: continue      # every third store position: keeps the family small
                            r = d.run(prog, vm=vm, mem=bytes(16), mbuff=bytes(32) if vm == 'mbuff' else b'', extra=bytes(range(64)), engine='interp',
                                      allowed=allowed, patch=[(0, 'extra', off)], isolate=False)
                            n += 1
                            carried = r.get('status') == 'ok'
                            if r.get('status') not in ('ok', 'err'):
                                rep.machinery_errors.append(f'native registration family: {str(r)[:200]}'); continue
                            if carried == inside_one: continue
                            found += 1
                            if found <= 3:
                                what = 'is carried out although it touches a byte outside every registered range' if carried else 'is refused although it lies inside a registered range'
                                cands.append(dict(role=f'register/{vm}/native/{"outside-carried-out" if carried else "inside-refused"}', native_family=True, friendly=True, model=None,
                                                  detail=f'after register_allowed_memory(buf+{order[0][0]}..buf+{order[0][0] + order[0][1]}) and (buf+{order[1][0]}..buf+{order[1][0] + order[1][1]}), a {w}-byte {kind} at buf+{off} {what}',
                                                  replay=dict(vm=vm, prog=prog.hex(), allowed=allowed, patch=[[0, 'extra', off]], native={k: r.get(k) for k in ('status', 'value', 'msg')})))
    rep.extra['native_registration_family'] = dict(runs=n, deviations=found, note='bounded native complement of the registration obligation; not part of the solver-decided claim')
    return found


def run():
    rep = Report('C02', 'model_checking', '5/C02')
    t = common.tier()
    nranges = 2 if t == 'quick' else 3
    timeout = 20000 if t == 'quick' else 120000
    ops = [o for o in spec.VERIFIER_OK if spec.classify(o)[0] in MEM_KINDS]
    cands = []
    for profile in ['dev', 'release']:
        res = icheck.run_sharded(ops, ['C02'], profile, nranges, timeout)
        arms = {}
        for r in res:
            rep.merge_counts(r['out']); cands += r['cands']; arms.update(r['stats'])
            for s in r['out'].get('stubs', []):
                if 'stub: ' + s not in rep.assumptions: rep.assumptions.append('stub: ' + s)
        missing = [spec.opname(o) for o in ops if o not in arms]
        if missing: rep.machinery_errors.append(f'arms not explored ({profile}): {missing}')
        rep.extra.setdefault('arms_explored', {})[profile] = len(arms)
        rep.extra.setdefault('paths', {})[profile] = {k: sum(a[k] for a in arms.values()) for k in ('cut', 'ret_ok', 'ret_err', 'panic')}
    registration(rep, cands, timeout)
    rep.assumptions += interp.Interp.ASSUMPTION_TEXT + [
        'registration: register_allowed_memory is shown (MIR, every VM kind, symbolic range) to be exactly one HashSet::insert of its argument into the field execute_program passes to the interpreter; HashSet::insert itself is trusted; a bounded native family of two-range histories complements it',
        'the instruction at pc satisfies the register/offset well-formedness facts of C06',
        'region bases and lengths are symbolic: empty packet, absent metadata buffer, 0..K registered ranges, address 0 and 2^64-k are inside the quantifier',
        'registered ranges overlapping the interpreter\'s own Rust stack frame are outside the model (registers and call frames are not in flat memory)']
    rep.bounds = dict(access_instructions=len(ops), widths='1,2,4,8', effective_addresses='all 64-bit', registered_ranges=nranges,
                      steps='1 (inductive step from an arbitrary loop-head state)', per_query_timeout_ms=timeout)
    return rep.finish(cands, lambda c: (True, 'observed natively (registration family)') if c.get('native_family') and c.get('replay') else ((None, 'registration deviation without a native instance') if c.get('native_family') else replaylib.replay_interp(c)))


def replay(path):
    return replaylib.replay_file(path)
