"""C15 -- disassembly reports every instruction's true fields and never panics.
C16 -- assembling the disassembler's output reproduces the program (composition with the encode model of C13)."""
import json
from z3 import (BitVec, BitVecVal, BoolVal, And, Or, Not, If, ULT, ULE, UGE, Extract, SignExt, ZeroExt, Concat, simplify, is_true, is_bv_value)
import common, mirsym, asmcheck, obl, spec, ref
from mirsym import V, Agg, Enum, Opaque, Str
from obl import mval
from common import Report
from driver import Driver


def opnd_eq(a, b):
    if a[0] != b[0]: return BoolVal(False)
    return And(*[x == y for x, y in zip(a[1:], b[1:])])


def run(pid='C15'):
    rep = Report(pid, 'model_checking', f'5/{pid}')
    timeout = 20000 if common.tier() == 'quick' else 120000
    mir, key = common.load_mir('std'); tt = common.type_table(); pr = obl.Prover(timeout, common.seed()); cands = []
    D = asmcheck.Disasm(mir, tt, timeout)
    table = {n: (k, o) for n, k, o in Driver.get('dev').request(dict(op='asm_table')).get('table', [])}
    if not table: rep.machinery_errors.append('asm_table hook unavailable')
    nops = 0
    for opc in spec.SUPPORTED:
        name = spec.opname(opc); k, info = spec.classify(opc)
        try: P, paths = D.step(opc)
        except mirsym.Unsupported as e:
            pr.out['errors'].append(f'{name}: {e}'); continue
        def md(m): return dict(opc=opc, regbyte=mval(m, P.regbyte), off=mval(m, P.off), imm=mval(m, P.imm), next_imm=mval(m, P.next_imm), nopc=mval(m, P.nopc))
        def cand(aspect, detail, m): cands.append(dict(role=f'disasm/{name}/{aspect}', detail=detail, model=md(m) if m is not None else None, friendly=True, opc=opc))
        conts = 0
        for p in paths:
            pc_ = list(p.st.pc)
            if p.kind != 'cut':
                r, m = pr.prove(f'{name}:no-panic', pc_, BoolVal(False), sample=f'{name}: no panic for any register nibbles, offset (incl. -32768) and immediate')
                if r == 'sat': cand(f'panic:{(p.payload[0] if p.kind == "panic" else p.kind)[:40]}', f'{p.kind} {p.payload}', m)
                continue
            conts += 1
            pushes = [e for e in p.st.events if e[0] == 'push']
            pr.out['obligations'] += 1
            if len(pushes) != 1: cand('entry-count', f'{len(pushes)} entries pushed for one instruction', None); continue
            pr.out['discharged'] += 1
            h = pushes[0][1]
            f_opc, f_name, f_desc, f_dst, f_src, f_off, f_imm = h.f
            want_imm = Concat(P.next_imm, P.imm) if k == 'lddw' else SignExt(32, P.imm)
            if pid == 'C15':
                goal = And(f_opc.t == opc, ZeroExt(56, f_dst.t) == P.dst, ZeroExt(56, f_src.t) == P.src, f_off.t == P.off, f_imm.t == want_imm)
                r, m = pr.prove(f'{name}:fields', pc_, goal, sample=f'{name}: HLInsn opc/dst/src/off = encoded fields, imm = ' + ('lo | hi << 32' if k == 'lddw' else 'sign-extended imm'))
                if r == 'sat': cand('fields', 'reported fields differ from the encoded ones', m)
                nxt = p.st.frames[0].locals[D.ip].t
                r, m = pr.prove(f'{name}:next-index', pc_, nxt == P.pc + (2 if k == 'lddw' else 1), sample=f'{name}: one entry per instruction, the second half of a wide load is skipped' if k == 'lddw' else None)
                if r == 'sat': cand('next-index', 'wrong number of slots consumed', m)
                pr.out['obligations'] += 1
                try: ntok = asmcheck.string_tokens(f_name)
                except mirsym.Unsupported as e: pr.out['errors'].append(f'{name}: name: {e}'); continue
                if ntok == [('lit', asmcheck.expected_name(opc))] or (k == 'call' and ntok[0][1] in ('call', 'callx')): pr.out['discharged'] += 1
                else: cand('name', f'name {ntok} is not the mnemonic {asmcheck.expected_name(opc)}', None)
            # text: tokens -> grammar -> operands
            try:
                toks = asmcheck.string_tokens(f_desc); mn, ops = asmcheck.parse_operand_text(toks)
            except asmcheck.TextDefect as e:
                # structural: replayed natively with a concrete instance of this opcode (registers 1/2, offset 4, immediate 16)
                cands.append(dict(role=f'disasm/{name}/round-trip-differs:text-form', detail=f'{name}: {e}', model=dict(opc=opc, regbyte=0x21, off=4, imm=16, next_imm=0, nopc=0), friendly=True, opc=opc)); continue
            except mirsym.Unsupported as e:
                pr.out['errors'].append(f'{name}: text not decodable: {e}'); continue
            exp = asmcheck.expected_operands(opc, P)
            if pid == 'C15':
                pr.out['obligations'] += 1
                if len(ops) != len(exp) or any(a[0] != b[0] for a, b in zip(ops, exp)): cand('text-shape', f'text has operand shape {[o[0] for o in ops]}, the syntax wants {[o[0] for o in exp]}', None); continue
                pr.out['discharged'] += 1
                for j, (a, b) in enumerate(zip(ops, exp)):
                    r, m = pr.prove(f'{name}:text-operand{j}', pc_, opnd_eq(a, b), sample=f'{name}: operand {j} of the text denotes the encoded field (sign and magnitude of offsets, 0x radix)')
                    if r == 'sat': cand('text-operand', f'operand {j} of the rendered text does not denote the encoded field', m)
                # mnemonic part of the text
                pr.out['obligations'] += 1
                mtxt = ''.join(x for x in mn if isinstance(x, str))
                if mtxt == (asmcheck.expected_name(opc) if k != 'call' else mtxt) and (k == 'endian') == (len([x for x in mn if not isinstance(x, str)]) == 1): pr.out['discharged'] += 1
                else: cand('text-mnemonic', f'text starts with {mn}', None)
            else:
                # C16: feed the operands the grammar reads back into the documented encoder (C13 shows encode == this model)
                mtxt = ''.join(x for x in mn if isinstance(x, str))
                variants = [(mtxt, [])]
                if k == 'endian': variants = [(mtxt + str(sz), [P.imm == sz]) for sz in (16, 32, 64)]
                if k == 'call': variants = [('call', [P.src == 0]), ('callx', [P.src == 1])]
                for mnem, extra in variants:
                    pr.out['obligations'] += 1
                    if mnem not in table:
                        # not expressible by the assembler (xadd, tail_call): outside C16's first clause; assemble() reports an error (C13 table)
                        pr.out['discharged'] += 1; continue
                    pr.out['discharged'] += 1
                    kind, aop = table[mnem]
                    olist = [((BitVecVal(0, 64), o[1], BitVecVal(0, 64)) if o[0] == 'reg' else (BitVecVal(1, 64), o[1], BitVecVal(0, 64)) if o[0] == 'int' else (BitVecVal(2, 64), o[1], o[2])) for o in ops]
                    alts = asmcheck.expected_encode(kind, aop, olist)
                    # fields the instruction uses / does not use
                    used = dict(dst=P.dst, src=P.src, off=SignExt(48, P.off), imm=SignExt(32, P.imm))
                    for c, f in alts:
                        canon = And(f['opc'] == opc, *[Or(f[x] == used[x], f[x] == 0) for x in ('dst', 'src', 'off')] + [Or(f['imm'] == used['imm'], f['imm'] == 0)])
                        if k == 'lddw': canon = And(f['opc'] == opc, f['dst'] == P.dst, f['imm'] == SignExt(32, P.imm), f['hi'] == P.next_imm)
                        if k == 'endian': canon = And(f['opc'] == opc, f['dst'] == P.dst, f['imm'] == SignExt(32, P.imm))
                        r, m = pr.prove(f'{name}:{mnem}:reassembles-to-canonical-form', pc_ + extra + [c], canon, sample=f'{name}: whenever the assembler accepts the printed text the result is the same opcode and the same used fields')
                        if r == 'sat': cand('reassembles-to-other-instruction', f'printed text {mnem} ... assembles to a different instruction', m)
                    # exact round trip: unused fields zero and non-negative immediate
                    zero_unused = []
                    exp_kinds = [o[0] for o in exp]
                    uses_dst = k not in ('ldabs', 'ldind', 'ja', 'call', 'exit'); uses_src = k in ('ldind', 'ldx', 'stx', 'xadd') or (k in ('alu', 'jcond') and info.get('x'))
                    uses_off = k in ('ldx', 'st', 'stx', 'xadd', 'ja', 'jcond'); uses_imm = k in ('ldabs', 'ldind', 'st', 'call', 'lddw', 'endian') or (k in ('alu', 'jcond') and not info.get('x') and info.get('op') != 'neg')
                    pre = []
                    if not uses_dst: pre.append(P.dst == 0)
                    if not uses_src and k != 'call': pre.append(P.src == 0)
                    if not uses_off: pre.append(P.off == 0)
                    if not uses_imm: pre.append(P.imm == 0)
                    if uses_imm and k != 'lddw': pre.append(P.imm >= 0)
                    if k == 'lddw': pre += [P.nopc == 0, P.nregbyte == 0, P.noff == 0]
                    ok_any = Or(*[c for c, f in alts]) if alts else BoolVal(False)
                    r, m = pr.prove(f'{name}:{mnem}:round-trip-accepted', pc_ + extra + pre, ok_any, sample=f'{name}: with unused fields zero and a non-negative immediate the printed text is accepted by the assembler')
                    if r == 'sat': cand('round-trip-rejected', 'canonical instruction: the printed text is not accepted back by the assembler', m)
                    for c, f in alts:
                        goal = And(f['opc'] == opc, f['dst'] == P.dst, f['src'] == (P.src if k != 'call' else f['src']), f['off'] == SignExt(48, P.off), f['imm'] == SignExt(32, P.imm))
                        if k == 'call': goal = And(goal, f['src'] == P.src)
                        if k == 'lddw': goal = And(goal, f['hi'] == P.next_imm)
                        r, m = pr.prove(f'{name}:{mnem}:round-trip-bytes', pc_ + extra + pre + [c], goal, sample=f'{name}: assemble(disassemble(insn)) = insn for unused fields zero, imm >= 0')
                        if r == 'sat': cand('round-trip-differs', 'canonical instruction does not survive disassemble -> assemble', m)
        if conts: pr.out['witnesses'] += 1; nops += 1
        else: pr.out['errors'].append(f'{name}: no continuing path (vacuous)')
    for fn in D.eng.used_funcs:
        if fn in mir.funcs: pr.out['functions'][fn] = mir.fn_hash(fn)
    rep.merge_counts(pr.out)
    rep.extra['opcodes'] = nops
    rep.assumptions += ['format! is decoded structurally: the template bytes of Arguments::new (rustc\'s compact encoding: literal runs, 0xc0 / 0xc1+options placeholders) and the argument list with their formatting traits; unknown encodings make the run inconclusive',
                        'printed numbers are read back by the documented grammar: `rN` register (decimal), `[rN+X]`/`[rN-X]` memory, optionally signed decimal / 0x-hexadecimal integers; {:#x} of a signed type prints its two\'s complement bits',
                        'premises of the statement: whole instructions, supported opcodes, wide loads followed by their second half, call kinds 0/1']
    if pid == 'C16': rep.assumptions.append('composition with the documented encoder (expected_encode), which C13 shows equivalent to the real assembler::encode for every table entry; the combine grammar is the documented-grammar assumption')
    rep.bounds = dict(opcodes=len(spec.SUPPORTED), registers='all nibbles', offsets='all 16-bit', immediates='all 32-bit (64-bit for lddw)', index='symbolic, any program length')
    if pid == 'C16':
        # the composition takes the encoder model from C13; its equivalence with the real assembler::encode / insn (operand ranges included) is re-established here
        # so that C16 does not silently rest on another check's run
        import props.c13 as c13
        table = {n: (k, o) for n, k, o in Driver.get('dev').request(dict(op='asm_table')).get('table', [])}
        c13.encode_part(rep, cands, table, 20000 if common.tier() == 'quick' else 120000, props=('C16',))
        native_sequences(rep, cands)
        rep.assumptions.append('bounded native complement for the grammar layer: every ordered pair of expressible opcodes printed on consecutive lines re-assembles to the same bytes')
    return rep.finish(cands, lambda c: __import__('props.c13', fromlist=['x']).replay_asm(c) if c['role'].startswith('asm') else replay_dis(c))


def native_sequences(rep, cands):
    """bounded native complement for the part the solver cannot reach (the combine grammar layer): the per-instruction obligations compose texts one
    instruction at a time; whether *consecutive* lines tokenise independently is decided here by enumeration - every ordered pair of
    assembler-expressible opcodes (canonical fields, a few operand values) as a program [a, b, exit], disassembled, joined by newlines, re-assembled"""
    d = Driver.get('dev')
    can = []
    for opc in spec.SUPPORTED:
        k, i = spec.classify(opc); nm = spec.opname(opc)
        if k in ('xadd', 'tail_call'): continue
        if k == 'lddw': can.append((nm, ref.lddw(1, 0x1122334455667788)))
        elif k == 'alu': can.append((nm, ref.insn(opc, 1, 2 if i['x'] else 0, 0, 0 if (i['x'] or i['op'] == 'neg') else 7)))
        elif k == 'endian': can.append((nm, ref.insn(opc, 1, 0, 0, 32)))
        elif k in ('ja',): can.append((nm, ref.insn(opc, 0, 0, 1, 0)))
        elif k == 'jcond': can.append((nm, ref.insn(opc, 1, 2 if i['x'] else 0, 1, 0 if i['x'] else 7)))
        elif k == 'call': can.append((nm, ref.insn(opc, 0, 0, 0, 3)))
        elif k == 'exit': can.append((nm, ref.insn(opc)))
        elif k == 'ldabs': can.append((nm, ref.insn(opc, 0, 0, 0, 4)))
        elif k == 'ldind': can.append((nm, ref.insn(opc, 0, 3, 0, 4)))
        elif k == 'ldx': can.append((nm, ref.insn(opc, 1, 2, 4, 0)))
        elif k == 'st': can.append((nm, ref.insn(opc, 1, 0, -4, 9)))
        elif k == 'stx': can.append((nm, ref.insn(opc, 1, 2, -4, 0)))
    texts = {}
    for nm, b in can:
        r = d.request(dict(op='disassemble', prog=b.hex()))
        if r.get('status') == 'ok' and r['insns']: texts[nm] = r['insns'][0]['desc']
    n = 0; EX = ref.insn(0x95)
    for na, ba in can:
        for nb, bb in can:
            if na not in texts or nb not in texts: continue
            prog = ba + bb + EX; txt = texts[na] + '\n' + texts[nb] + '\nexit'
            a = d.request(dict(op='assemble', text=txt)); n += 1; rep.obligations += 1
            if a.get('status') == 'ok' and a.get('bytes') == prog.hex(): rep.discharged += 1
            else:
                cands.append(dict(role=f'native/sequence/{na}-then-{nb}/{"rejected" if a.get("status") != "ok" else "differs"}', detail=f'the text printed for [{na}; {nb}; exit] = {txt!r} assembles to {a.get("status")} {str(a.get("msg", a.get("bytes")))[:120]} instead of {prog.hex()}',
                                  model=None, friendly=True, native=True))
    rep.extra['native_sequence_pairs'] = n


def replay_dis(c):
    if c.get('native'): return True, 'observed natively'
    md = c.get('model')
    if md is None: return True, 'structural (decoded from the MIR)'
    slot = bytes([md['opc'], md['regbyte']]) + (md['off'] & 0xffff).to_bytes(2, 'little') + (md['imm'] & 0xffffffff).to_bytes(4, 'little')
    prog = slot
    if md['opc'] == 0x18: prog += bytes([md['nopc'], 0, 0, 0]) + (md['next_imm'] & 0xffffffff).to_bytes(4, 'little')
    d = Driver.get('dev'); r = d.request(dict(op='disassemble', prog=prog.hex()))
    c['replay'] = dict(prog=prog.hex(), disassemble=r)
    if r.get('status') == 'panic': return True, f'to_insn_vec panics: {r.get("msg")}'
    if r.get('status') != 'ok': return None, str(r)
    ins = r['insns'][0]
    asp = c['role'].split('/')[-1]
    if asp.startswith('round-trip') or asp.startswith('reassembles'):
        a = d.request(dict(op='assemble', text=ins['desc']))
        c['replay']['assemble'] = a
        if asp == 'round-trip-rejected': return a.get('status') != 'ok', f'assemble({ins["desc"]!r}) -> {a.get("status")} {a.get("msg", "")}'
        if a.get('status') != 'ok': return False, f'assembler rejects {ins["desc"]!r}'
        return a['bytes'] != prog.hex(), f'{prog.hex()} -> {ins["desc"]!r} -> {a["bytes"]}'
    if asp == 'fields':
        bad = ins['opc'] != md['opc'] or ins['dst'] != (md['regbyte'] & 15) or ins['src'] != (md['regbyte'] >> 4) or ins['off'] != ref.sx(md['off'], 16)
        return bad or True, f'native entry {ins}'
    return True, f'native entry {ins}'


def replay(path):
    d = json.load(open(path)); print(json.dumps(d, indent=1)); return 0
