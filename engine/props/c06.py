"""C06 -- the default verifier accepts exactly the well-formed programs.
Obligations over the MIR of verifier::check: check_prog_len <=> length/last-instruction clause; one loop iteration at an
arbitrary index i for each of the 256 opcode byte values: Continue(i') <=> L(i), i' = i+1 (i+2 after a wide load),
never a panic; loop exit test.  accept <=> WF follows by induction over the loop (paper step)."""
import traceback, json
from z3 import (BitVecVal, BoolVal, And, Or, Not, If, ULT, ULE, UGT, UGE, URem, Select, SignExt, simplify, is_true, is_false)
import common, mirsym, verif, spec, obl, ref
from obl import mval
from common import Report
from driver import Driver


def wf_clauses(P, opc, opc_at):
    """L(i) as named clauses (C06's statement)"""
    c = spec.classify(opc)
    if c is None: return [('supported-opcode', BoolVal(False))]
    k, i = c
    if k == 'tail_call': return [('tail-call-refused', BoolVal(False))]
    n = P.n; cs = [('src<=10', ULE(P.src, 10))]
    store_cls = (opc & 7) in (spec.CLS_ST, spec.CLS_STX)
    cs.append(('dst<=9-or-r10-as-store-base', Or(ULE(P.dst, 9), And(P.dst == 10, BoolVal(store_cls)))))
    def lands(tgt): return And(tgt >= 0, ULT(tgt, n), opc_at(tgt) != 0)
    if k == 'lddw': cs.append(('wide-load-has-second-half', And(ULT(P.pc + 1, n), P.nopc == 0)))
    if k in ('ja', 'jcond'):
        cs.append(('no-self-jump', P.off != 0xffff)); cs.append(('jump-lands-on-instruction', lands(P.pc + 1 + SignExt(48, P.off))))
    if k == 'call':
        cs.append(('call-kind-0-or-1', Or(P.src == 0, P.src == 1)))
        cs.append(('local-call-lands-on-instruction', Or(P.src != 1, lands(P.pc + 1 + SignExt(32, P.imm)))))
    if k == 'endian': cs.append(('byte-swap-width', Or(P.imm == 16, P.imm == 32, P.imm == 64)))
    if k == 'xadd': cs.append(('atomic-add-zero-imm', P.imm == 0))
    return cs


def tgt_of(P, opc):
    c = spec.classify(opc)
    if c is None: return None
    if c[0] in ('ja', 'jcond'): return P.pc + 1 + SignExt(48, P.off)
    if c[0] == 'call': return P.pc + 1 + SignExt(32, P.imm)
    return None


def model_of(m, P, V, opc):
    d = dict(pc=mval(m, P.pc), n=mval(m, P.n), prog_len=mval(m, P.prog_len), opc=opc, regbyte=mval(m, P.regbyte), off=mval(m, P.off), imm=mval(m, P.imm),
             nopc=mval(m, P.nopc), nregbyte=mval(m, P.nregbyte), noff=mval(m, P.noff), next_imm=mval(m, P.next_imm))
    t = tgt_of(P, opc)
    if t is not None:
        d['tgt'] = mval(m, t); d['tgt_opc'] = mval(m, V.opc_at(t))
    d['last_opc'] = mval(m, V.opc_at(P.n - 1))
    if getattr(P, 'carried', None): d['carried'] = {k: str(m.eval(v.t, model_completion=True)) for k, v in P.carried.items()}
    return d


def friendly(P):
    return [[ULE(P.prog_len, 8 * 48), UGE(P.pc, 2)], [ULE(P.prog_len, 8 * 70000), UGE(P.pc, 2)], []]


def worker(args):
    opcodes, timeout_ms, sd = args
    try:
        mir, key = common.load_mir('std'); tt = common.type_table()
        V = verif.Verif(mir, tt, timeout_ms); pr = obl.Prover(timeout_ms, sd)
        alen = V.a_len()
        cands = []; arms = {}
        for opc in opcodes:
            name = spec.opname(opc)
            try:
                st, P = V.make_pre(opc)
                inv = [ULT(P.pc, P.n), ULE(P.prog_len, 8 * 1000000), alen]
                st.pc += [simplify(c) for c in inv]
                paths = V.step_paths(st)
                clauses = wf_clauses(P, opc, V.opc_at); L = And(*[c for _, c in clauses])
                exp_next = P.pc + (2 if spec.classify(opc) and spec.classify(opc)[0] == 'lddw' else 1)
                seen = set(); cnt = dict(cut=0, err=0, panic=0)
                def cand(role, detail, m):
                    if role in seen: return
                    m2 = pr.refine(friendly(P), m)
                    if pr.refined_ok: seen.add(role)
                    cands.append(dict(role=role, detail=detail, model=model_of(m2, P, V, opc), friendly=pr.refined_ok))
                for p in paths:
                    pc_ = list(p.st.pc)
                    if p.kind == 'panic':
                        cnt['panic'] += 1
                        r, m = pr.prove(f'{name}:no-panic', pc_, BoolVal(False))
                        if r == 'sat': cand(f'verifier/{name}/panic:{p.payload[0][:50]}', f'verifier panics in {p.payload[1]} {p.payload[2]}', m)
                    elif p.kind == 'cut':
                        cnt['cut'] += 1
                        for cname, c in clauses:
                            r, m = pr.prove(f'{name}:accepted=>{cname}', pc_, c, sample=f'{name} at any index i: not rejected => {cname}')
                            if r == 'sat': cand(f'verifier/{name}/accepts-ill-formed:{cname}', f'instruction accepted although clause "{cname}" fails', m)
                        r, m = pr.prove(f'{name}:next-index', pc_, V.next_pc(p) == exp_next, sample=f'{name}: next index = i+{2 if "lddw" == name else 1}')
                        if r == 'sat': cand(f'verifier/{name}/next-index', 'loop advances to a wrong index', m)
                    elif p.kind == 'return':
                        isok = is_true(simplify(p.payload.disc() == 0))
                        if isok:
                            r, m = pr.prove(f'{name}:no-early-accept', pc_, BoolVal(False))
                            if r == 'sat': cand(f'verifier/{name}/early-accept', 'check returns Ok before the end of the program', m)
                        else:
                            cnt['err'] += 1
                            r, m = pr.prove(f'{name}:rejected=>ill-formed', pc_, Not(L), sample=f'{name} at any index i: rejected => some clause of L(i) fails')
                            if r == 'sat': cand(f'verifier/{name}/rejects-well-formed', 'well-formed instruction rejected', m)
                    else:
                        r, m = pr.prove(f'{name}:{p.kind}', pc_, BoolVal(False))
                        if r == 'sat': cand(f'verifier/{name}/{p.kind}', str(p.payload), m)
                arms[opc] = cnt
                good = [p for p in paths if p.kind in ('cut', 'return')]
                if good:
                    pr.witness(f'{name}:path', list(good[0].st.pc))
                    cuts = [p for p in paths if p.kind == 'cut']
                    if cuts: pr.twin(f'{name}:next-index+1', list(cuts[0].st.pc), V.next_pc(cuts[0]) == exp_next + 1)
                else: pr.out['errors'].append(f'{name}: no path (vacuous)')
                pr.out['programs'] += 1
            except mirsym.Unsupported as e:
                pr.out['errors'].append(f'{name} ({opc:#x}): unsupported MIR construct: {e}')
        pr.out['functions'] = V.functions_encoded()
        return dict(out=pr.out, cands=cands, arms=arms)
    except Exception as e:
        return dict(out=dict(errors=[f'worker crashed: {e}\n{traceback.format_exc()}']), cands=[], arms={})


def global_obligations(timeout_ms):
    """check_prog_len, prelude and loop exit (opcode symbolic)"""
    mir, key = common.load_mir('std'); tt = common.type_table()
    V = verif.Verif(mir, tt, timeout_ms); pr = obl.Prover(timeout_ms, common.seed()); cands = []
    n = V.prog_len / 8
    last = V.opc_at(n - 1)
    spec_len = And(V.prog_len != 0, URem(V.prog_len, 8) == 0, ULE(V.prog_len, 8 * 1000000), Or(last == 0x95, last == 0x05))
    def md(m): return dict(prog_len=mval(m, V.prog_len), last_opc=mval(m, last), n=mval(m, n))
    fr_t = [[ULE(V.prog_len, 8 * 48), last == 0x85], [ULE(V.prog_len, 8 * 48)], [ULE(V.prog_len, 8 * 1100000)], []]
    for p in V.prog_len_paths():
        pc_ = list(p.st.pc)
        if p.kind == 'panic':
            r, m = pr.prove('check_prog_len:no-panic', pc_, BoolVal(False))
            if r == 'sat': cands.append(dict(role=f'verifier/prog-len/panic:{p.payload[0][:50]}', detail='check_prog_len panics', model=md(pr.refine(fr_t, m)), friendly=True))
        elif p.kind == 'return':
            if is_true(simplify(p.payload.disc() == 0)):
                for cname, c in (('non-empty', V.prog_len != 0), ('multiple-of-8', URem(V.prog_len, 8) == 0), ('at-most-1000000-insns', ULE(V.prog_len, 8000000)),
                                 ('last-is-exit-or-ja', Or(last == 0x95, last == 0x05))):
                    r, m = pr.prove(f'check_prog_len:Ok=>{cname}', pc_, c, sample=f'check_prog_len Ok => {cname}')
                    if r == 'sat': cands.append(dict(role=f'verifier/prog-len/accepts:{cname}', detail=f'length/last-instruction clause "{cname}" not enforced', model=md(pr.refine(fr_t, m)), friendly=True))
            else:
                r, m = pr.prove('check_prog_len:Err=>clause-fails', pc_, Not(spec_len), sample='check_prog_len Err => length or last-instruction clause fails')
                if r == 'sat': cands.append(dict(role='verifier/prog-len/rejects-well-formed', detail='well-formed length/last instruction rejected', model=md(pr.refine(fr_t, m)), friendly=True))
    # prelude: Err of check_prog_len is propagated; loop entered at index 0
    V.head_state()
    for p in V.prelude_paths:
        pr.out['obligations'] += 1
        if p.kind == 'cut':
            ip = simplify(p.st.frames[0].locals[V.ip].t)
            if str(ip) == '0': pr.out['discharged'] += 1
            else: cands.append(dict(role='verifier/prelude/start-index', detail=f'loop starts at {ip}', model=None))
        elif p.kind == 'return' and is_true(simplify(p.payload.disc() == 1)): pr.out['discharged'] += 1
        elif p.kind == 'panic':
            r, m = pr.prove('prelude:no-panic', list(p.st.pc), BoolVal(False))
            if r == 'sat': cands.append(dict(role=f'verifier/prog-len/panic:{p.payload[0][:50]}', detail='panic before the loop', model=md(pr.refine(fr_t, m)), friendly=True))
            else: pr.out['discharged'] += 1
        else: cands.append(dict(role='verifier/prelude/accepts-without-loop', detail='check returns Ok without scanning', model=None))
    # loop exit: at i >= n (invariant i <= n) the result is Ok iff i = n
    st, P = V.make_pre(None)
    st.pc += [UGE(P.pc, P.n), ULE(P.pc, P.n + 1), ULE(P.prog_len, 8000000), V.a_len()]
    for p in V.step_paths(st):
        pc_ = list(p.st.pc)
        if p.kind == 'return':
            ok = is_true(simplify(p.payload.disc() == 0))
            r, m = pr.prove(f'loop-exit:{"Ok" if ok else "Err"}', pc_, (P.pc == P.n) if ok else (P.pc != P.n), sample='after the loop: Ok iff index = number of instructions')
            if r == 'sat': cands.append(dict(role='verifier/loop-exit/verdict', detail='wrong verdict at loop exit', model=None))
        else:
            r, m = pr.prove(f'loop-exit:{p.kind}', pc_, BoolVal(False))
            if r == 'sat': cands.append(dict(role=f'verifier/loop-exit/{p.kind}', detail=str(p.payload), model=None))
    pr.out['functions'] = V.functions_encoded()
    return pr.out, cands


def build_program(md):
    if 'pc' not in md:       # check_prog_len model
        n = md['n']; ln = md['prog_len']
        if ln > 8 * 1100000: return None
        body = bytearray()
        for i in range(ln // 8): body += ref.insn(0xb7)
        body += bytes(ln - len(body))
        if ln >= 8 and ln % 8 == 0: body[ln - 8] = md['last_opc']
        return bytes(body)
    n = md['n']; i = md['pc']
    if n > 70000 or i >= n: return None
    slots = [ref.insn(0xb7)] * n; slots[n - 1] = ref.insn(0x95)
    t = md.get('tgt')
    if t is not None and 0 <= t < n and t != i:
        if md['tgt_opc'] == 0:
            if t - 1 != i and t >= 1: slots[t - 1] = ref.insn(0x18); slots[t] = ref.insn(0)
            else: slots[t] = ref.insn(0)
    slots[i] = bytes([md['opc'], md['regbyte']]) + (md['off'] & 0xffff).to_bytes(2, 'little') + (md['imm'] & 0xffffffff).to_bytes(4, 'little')
    k = spec.classify(md['opc'])
    if i + 1 < n and (k and k[0] == 'lddw'):
        slots[i + 1] = bytes([md['nopc'], md['nregbyte']]) + (md['noff'] & 0xffff).to_bytes(2, 'little') + (md['next_imm'] & 0xffffffff).to_bytes(4, 'little')
    return b''.join(slots)


def replay_c06(c):
    md = c.get('model')
    if md is None: return True, 'structural finding'
    prog = build_program(md)
    if prog is None: return None, 'model too large to replay'
    d = Driver.get('dev'); last = None
    # the loop body is checked from an arbitrary value of any loop-carried verifier state; a counterexample that depends on it
    # needs a history: the same program behind one earlier instruction of each kind is tried as well (relative targets are unchanged)
    hist = [b'', ref.insn(0x62, 10, 0, -4, 0), ref.insn(0x7b, 10, 1, -8, 0), ref.insn(0x61, 1, 10, -4, 0), ref.lddw(1, 1), ref.insn(0x05, 0, 0, 0, 0),
            ref.insn(0x15, 1, 0, 0, 0), ref.insn(0x85, 0, 0, 0, 1), ref.insn(0xdc, 1, 0, 0, 16), ref.insn(0xdb, 10, 1, -8, 0), ref.insn(0x07, 1, 0, 0, 1)]
    for h in hist:
        p2 = h + prog
        r = d.request(dict(op='load', prog=p2.hex()))
        want, why = ref.wf(p2)
        c['replay'] = dict(prog=p2.hex() if len(p2) <= 1024 else f'<{len(p2)} bytes>', native=r, reference=[want, why])
        for api in ('new', 'set_program'):
            got = r.get(api)
            if got == 'panic': return True, f'{api} panics: {r.get("msg")}'
            if (got == 'ok') != want: return True, f'{api} says {got} ({r.get("msg", "")}), the statement says {"well-formed" if want else "ill-formed: " + str(why)}' + (f' [with the earlier instruction {h.hex()}]' if h else '')
        last = (r, why)
        if not md.get('carried'): break
    return False, f'native verdict {last[0].get("new")} agrees with the statement ({last[1]})'


def run():
    import multiprocessing as mp
    rep = Report('C06', 'model_checking', '5/C06')
    timeout = 20000 if common.tier() == 'quick' else 120000
    common.load_mir('std')
    ops = list(range(256)); nj = min(common.jobs(), 16)
    with mp.Pool(nj) as pool:
        res = pool.map(worker, [(ops[i::nj], timeout, common.seed()) for i in range(nj)])
    cands = []; arms = {}
    for r in res:
        rep.merge_counts(r['out']); cands += r['cands']; arms.update(r['arms'])
    if len(arms) != 256: rep.machinery_errors.append(f'only {len(arms)} of 256 opcode values explored')
    out, c2 = global_obligations(timeout)
    rep.merge_counts(out); cands += c2
    rep.extra['opcode_values_explored'] = len(arms)
    rep.extra['paths'] = {k: sum(a[k] for a in arms.values()) for k in ('cut', 'err', 'panic')}
    rep.assumptions += ['a &[u8] never wraps around the address space and is non-null',
                        'loop-body obligations assume what the real check_prog_len established (its extracted Ok condition) and the loop invariant index <= number of instructions',
                        'accept <=> WF for whole programs follows from the three obligation groups by induction over the loop (paper step)']
    rep.bounds = dict(program_length='symbolic, any (no bound)', index='symbolic', opcode_bytes=256, register_byte='all 256', offsets='all 16-bit', immediates='all 32-bit',
                      per_query_timeout_ms=timeout)
    return rep.finish(cands, replay_c06)


def replay(path):
    d = json.load(open(path)); print(json.dumps(d, indent=1)); return 0
