"""C11 -- Cranelift-compiled code never touches memory outside packet, metadata buffer and the 512-byte stack."""
import json
import common, spec, clifcheck
from common import Report
import props.c04 as c04


def run():
    rep = Report('C11', 'translation_validation', '5/C11')
    t = common.tier(); timeout = 20000 if t == 'quick' else 120000
    common.load_mir('std')
    items = c04.items_for(t, kinds=('ldx', 'st', 'stx', 'xadd', 'ldabs', 'ldind'))
    out, cands = clifcheck.run_items(items, ('C11',), timeout)
    rep.merge_counts(out)
    rep.extra['program_instances'] = len(items)
    rep.assumptions += [
        'the CLIF text built by src/cranelift.rs (hook H2) is executed symbolically with symbolic base register, region bases and lengths; Cranelift\'s trapz -> ud2 lowering is trusted',
        'obligations: (a) every load/store/atomic_rmw reached on any path lies wholly inside stack slot, packet or metadata buffer (address taken from the access itself); (b) a bounds-check trap fires only if the guarded access is not wholly inside a region',
        'distinct buffers do not overlap; null/absent regions, address 0 and addresses near 2^64 are inside the quantifier']
    rep.bounds = dict(instances=len(items), widths='1,2,4,8', offsets='code-derived classes incl. +-2^15 limits', base_register='all 64-bit values', region_layout='symbolic', per_query_timeout_ms=timeout)
    return rep.finish(cands, clifcheck.replay)


def replay(path):
    d = json.load(open(path)); print(json.dumps(d, indent=1)); return 0
