"""C20 -- the no_std build answers like the default build.
Product check: the same extraction (mirsym over rustc MIR) is run on the MIR dump of both feature configurations
(`--features std` and `--no-default-features`) from the same symbolic input, and z3 is asked whether any outcome can
differ: outcome kind (continue / return / panic), returned value incl. the Err payload (error kind, format template and
arguments), registers, pc, frames, memory, access log, helper events, emitted code bytes.  Components: interpreter
(prelude + one loop iteration per opcode), verifier (check_prog_len, one iteration per opcode byte), disassembler (one
iteration per opcode), assembler encode (per mnemonic-table entry) + literal closures, x86-64 JIT (prologue, one
iteration per opcode in the emitting pass, epilogue) and the no_std JitMemory::new (same arguments to both passes,
caller memory large enough and page aligned, else Err).  The combine grammar layer is not encodable (stated)."""
import json, traceback, re
from z3 import (BitVec, BitVecVal, Bool, BoolVal, And, Or, Not, If, ULT, ULE, UGE, Extract, ZeroExt, simplify, is_true, is_false, is_expr, Array, BitVecSort, URem)
import common, mirsym, spec, obl, verif, interp, asmcheck
from mirsym import V, Agg, Enum, Slice, Opaque, Ptr, Ref, LazyObj, Unsupported, Str, Closure
from common import Report


class Mismatch(Exception):
    pass


def norm_name(s):
    s = re.sub(r'\b(std|core|alloc)::', '', s)
    s = re.sub(r'\b(io::Error|no_std_error::Error)\b', 'Error', s)
    s = re.sub(r'\b(io::ErrorKind|no_std_error::ErrorKind|io::error::ErrorKind)\b', 'ErrorKind', s)
    return s


def deep_eq(a, b, eqs, where='value'):
    """structural comparison of two mirsym values; z3 terms that are not syntactically equal are collected in eqs"""
    if a is None and b is None: return
    if isinstance(a, (int, bool)) and not isinstance(a, bool) and is_expr(b): a = BitVecVal(a, b.size())
    if isinstance(b, (int, bool)) and not isinstance(b, bool) and is_expr(a): b = BitVecVal(b, a.size())
    if is_expr(a) and is_expr(b):
        if a.eq(b): return
        if a.sort() != b.sort(): raise Mismatch(f'{where}: sorts {a.sort()} / {b.sort()}')
        eqs.append((where, a == b)); return
    if type(a) is not type(b): raise Mismatch(f'{where}: {type(a).__name__} / {type(b).__name__}: {str(a)[:80]} / {str(b)[:80]}')
    if isinstance(a, V): return deep_eq(a.t, b.t, eqs, where)
    if isinstance(a, (str, int, bool, float)):
        if (norm_name(a) if isinstance(a, str) else a) != (norm_name(b) if isinstance(b, str) else b): raise Mismatch(f'{where}: {a!r} / {b!r}')
        return
    if isinstance(a, (list, tuple)):
        if len(a) != len(b): raise Mismatch(f'{where}: lengths {len(a)} / {len(b)}')
        for i, (x, y) in enumerate(zip(a, b)): deep_eq(x, y, eqs, f'{where}[{i}]')
        return
    if isinstance(a, dict):
        if set(a) != set(b): raise Mismatch(f'{where}: keys {sorted(map(str, a))} / {sorted(map(str, b))}')
        for k in a: deep_eq(a[k], b[k], eqs, f'{where}.{k}')
        return
    if isinstance(a, Agg): return deep_eq(list(a.f), list(b.f), eqs, where)
    if isinstance(a, Enum):
        deep_eq(a.disc(), b.disc(), eqs, where + '.discr')
        for k in set(a.payload) | set(b.payload):
            pa, pb = a.payload.get(k), b.payload.get(k)
            if pa and pb: deep_eq(list(pa), list(pb), eqs, f'{where}.variant{k}')
        return
    if isinstance(a, Slice): deep_eq(a.base, b.base, eqs, where + '.ptr'); deep_eq(a.len, b.len, eqs, where + '.len'); return
    if isinstance(a, Ptr): return deep_eq(a.addr, b.addr, eqs, where + '.addr')
    if isinstance(a, Str): return deep_eq(a.s if isinstance(a.s, (str, bytes)) else str(a.s), b.s if isinstance(b.s, (str, bytes)) else str(b.s), eqs, where)
    if isinstance(a, bytes):
        if a != b: raise Mismatch(f'{where}: {a!r} / {b!r}')
        return
    if isinstance(a, Opaque):
        if norm_name(str(a.tag)) != norm_name(str(b.tag)): raise Mismatch(f'{where}: {a.tag} / {b.tag}')
        return deep_eq(tuple(a.args), tuple(b.args), eqs, f'{where}<{a.tag}>')
    if isinstance(a, LazyObj):
        if a.name != b.name: raise Mismatch(f'{where}: {a.name} / {b.name}')
        return
    if isinstance(a, Ref):
        if (a.local, len(a.proj)) != (b.local, len(b.proj)): raise Mismatch(f'{where}: {a} / {b}')
        return
    if isinstance(a, Closure): return
    raise Mismatch(f'{where}: cannot compare {type(a).__name__}')


class Product:
    def __init__(self, pr, cands): self.pr = pr; self.cands = cands; self.cases = 0
    def compare(self, case, PS, PN, view, model_fn=None):
        """PS / PN: path lists of the two builds from the same symbolic pre-state; view(path) -> comparable structure"""
        pr = self.pr; self.cases += 1
        def cand(aspect, detail, m=None):
            self.cands.append(dict(role=f'{case}/{aspect}', detail=detail, model=(model_fn(m) if (m is not None and model_fn) else None), friendly=True))
        aligned = len(PS) == len(PN) and all(len(a.st.pc) == len(b.st.pc) and all(x.eq(y) for x, y in zip(a.st.pc, b.st.pc)) for a, b in zip(PS, PN))
        pairs = list(zip(PS, PN)) if aligned else None
        if pairs is None:
            pairs = []
            for a in PS:
                for b in PN:
                    r, _ = pr.check(list(a.st.pc) + list(b.st.pc), [])
                    if r != 'unsat': pairs.append((a, b))
            # coverage: every std path meets some no_std path
            for a in PS:
                if not any(x is a for x, _ in pairs): cand('no-matching-path', f'std path {a.kind} has no counterpart in the no_std build')
        for a, b in pairs:
            conds = list(a.st.pc) + ([] if aligned else list(b.st.pc))
            pr.out['obligations'] += 1
            if a.kind != b.kind:
                r, m = pr.check(conds, [])
                if r == 'sat': cand('outcome-kind', f'std: {a.kind} {str(a.payload)[:80]} / no_std: {b.kind} {str(b.payload)[:80]}', m)
                elif r != 'unsat': pr.out['inconclusive'].append(f'{case}: kind')
                else: pr.out['discharged'] += 1
                continue
            eqs = []
            vs, vn = view if isinstance(view, tuple) else (view, view)
            try: deep_eq(vs(a), vn(b), eqs, 'outcome')
            except Mismatch as e:
                r, m = pr.check(conds, [])
                if r == 'sat': cand('outcome-structure', str(e)[:300], m)
                else: pr.out['discharged'] += 1
                continue
            if not eqs:
                pr.out['discharged'] += 1; pr.out['syntactic'] = pr.out.get('syntactic', 0) + 1; continue
            pr.out['obligations'] -= 1
            r, m = pr.prove(f'{case}:same-outcome', conds, And(*[e for _, e in eqs]), sample=f'{case}: both builds give the same outcome on every path')
            if r == 'sat':
                bad = [w for w, e in eqs if is_false(simplify(m.eval(e, model_completion=True)))]
                cand('outcome-value:' + (bad[0] if bad else '?')[:60], f'differs at {bad[:4]}', m)
        if PS and PN: pr.out['witnesses'] += 1


def path_view_generic(p):
    d = dict(kind=p.kind, events=[(e[0],) + tuple(e[1:]) for e in p.st.events], log=[tuple(x) for x in p.st.log])
    if p.kind == 'return': d['ret'] = p.payload
    if p.kind == 'panic': d['panic'] = str(p.payload[0])
    if p.st.mem is not None: d['mem'] = p.st.mem
    return d


# ------------------------------------------------------------------------------------------ components
def worker(args):
    comp, items, timeout = args
    try:
        ms, _ = common.load_mir('std'); mn, _ = common.load_mir('nostd'); tt = common.type_table()
        pr = obl.Prover(timeout, common.seed()); cands = []; X = Product(pr, cands); used = {}
        def note(eng, mir, tag):
            for fn in eng.used_funcs:
                if fn in mir.funcs: used[f'{tag}:{fn}'] = mir.fn_hash(fn)
        if comp == 'interp':
            Is = interp.Interp(ms, tt, 2, True, timeout); In = interp.Interp(mn, tt, 2, True, timeout)
            def view(I):
                def v(p):
                    Q = I.post(p); d = dict(kind=p.kind, mem=Q.M, log=[tuple(x) for x in Q.log], events=[tuple(e) for e in Q.events])
                    if p.kind == 'cut': d.update(regs=Q.regs, pc=Q.pc, sfi=Q.sfi, frames=Q.frames)
                    if p.kind == 'return': d['ret'] = p.payload
                    if p.kind == 'panic': d['panic'] = str(p.payload[0])
                    return d
                return v
            for opc in items:
                if opc == 'prelude':
                    try: X.compare('interp/prelude', Is.prelude_paths(), In.prelude_paths(), lambda p: dict(kind=p.kind, ret=p.payload if p.kind == 'return' else None, fl=(p.st.frames[0].locals.get(Is.names['reg']) if p.st.frames else None)))
                    except Unsupported as e: pr.out['errors'].append(f'interp prelude: {e}')
                    continue
                name = spec.opname(opc)
                try:
                    st1, P1 = Is.make_pre(opc); st2, P2 = In.make_pre(opc)
                    inv = Is.region_assumptions()
                    st1.pc += [c for c in inv if not any(c.eq(x) for x in st1.pc)]; st2.pc = list(st1.pc)
                    X.compare(f'interp/{name}', Is.step_paths(st1), In.step_paths(st2), (view(Is), view(In)),
                              lambda m, P=P1, opc=opc: dict(opc=opc, dst=obl.mval(m, P.dst), src=obl.mval(m, P.src), off=obl.mval(m, P.off), imm=obl.mval(m, P.imm)))
                except Unsupported as e: pr.out['errors'].append(f'interp {name}: {e}')
            note(Is.eng, ms, 'std'); note(In.eng, mn, 'no_std')
        elif comp == 'verifier':
            Vs = verif.Verif(ms, tt, timeout); Vn = verif.Verif(mn, tt, timeout)
            for opc in items:
                try:
                    if opc == 'prog_len':
                        X.compare('verifier/check_prog_len', Vs.prog_len_paths(), Vn.prog_len_paths(), path_view_generic); continue
                    st1, P1 = Vs.make_pre(opc); st2, P2 = Vn.make_pre(opc)
                    def view(V_):
                        return lambda p: dict(path_view_generic(p), nxt=(p.st.frames[0].locals[V_.ip].t if p.kind == 'cut' else None))
                    X.compare(f'verifier/opcode-{opc:#04x}', Vs.step_paths(st1), Vn.step_paths(st2), (view(Vs), view(Vn)),
                              lambda m, P=P1, opc=opc: dict(opc=opc, regbyte=obl.mval(m, P.regbyte), off=obl.mval(m, P.off), imm=obl.mval(m, P.imm), pc=obl.mval(m, P.pc), n=obl.mval(m, P.n)))
                except Unsupported as e: pr.out['errors'].append(f'verifier {opc}: {e}')
            note(Vs.eng, ms, 'std'); note(Vn.eng, mn, 'no_std')
        elif comp == 'disasm':
            Ds = asmcheck.Disasm(ms, tt, timeout); Dn = asmcheck.Disasm(mn, tt, timeout)
            for opc in items:
                try:
                    P1, ps = Ds.step(opc); P2, pn = Dn.step(opc)
                    def view(D_):
                        return lambda p: dict(path_view_generic(p), nxt=(p.st.frames[0].locals[D_.ip].t if p.kind == 'cut' else None))
                    X.compare(f'disasm/{spec.opname(opc)}', ps, pn, (view(Ds), view(Dn)), lambda m, P=P1, opc=opc: dict(opc=opc, regbyte=obl.mval(m, P.regbyte), off=obl.mval(m, P.off), imm=obl.mval(m, P.imm)))
                except Unsupported as e: pr.out['errors'].append(f'disasm {opc}: {e}')
            note(Ds.eng, ms, 'std'); note(Dn.eng, mn, 'no_std')
        elif comp == 'asm':
            for (name, kind, opc) in items:
                for nops in range(0, 5):
                    try:
                        rs = asmcheck.run_encode(ms, tt, kind, opc, nops, timeout); rn = asmcheck.run_encode(mn, tt, kind, opc, nops, timeout)
                        X.compare(f'asm/{kind}/{nops}-operands', rs[2], rn[2], path_view_generic)
                    except Unsupported as e: pr.out['errors'].append(f'asm {name}: {e}')
        elif comp == 'jit':
            import props.c12a as c12a
            Js = c12a.JitLoop(ms, tt, timeout); Jn = c12a.JitLoop(mn, tt, timeout)
            Vf = verif.Verif(ms, tt, timeout); alen = Vf.a_len()
            def view(J):
                def v(p):
                    fl = p.st.aux.get('final_locals', {}) if p.kind == 'return' else (p.st.frames[0].locals if p.st.frames else {})
                    jm = fl.get('$jm')
                    d = dict(path_view_generic(p), off=(jm.fields[J.off_field].t if jm is not None and J.off_field in jm.fields else None))
                    return d
                return v
            for opc in items:
                try:
                    if opc == 'prologue':
                        Js.head_state(); Jn.head_state()
                        X.compare('jit/prologue', Js.prologue_paths, Jn.prologue_paths, (view(Js), view(Jn))); continue
                    A, _, VP = Vf.accept_formula(opc)
                    st1, P1 = Js.step(opc); st2, P2 = Jn.step(opc)
                    n = Js.prog_len / 8; off0 = Js.jm_offset()
                    inv = [alen, simplify(A), ULT(P1.pc, n), Js.nslots == n + 1, ULE(off0, 1 << 32), ULE(Js.prog_len, 8000000), Js.jm_we(), UGE(Js.jm_len(), off0 + 64), ULE(Js.jm_len(), 1 << 40),
                           ULE(BitVec('jm.contents.ptr', 64), 1 << 62), ULE(BitVec('pc_locs.ptr', 64), 1 << 62)]
                    st1.pc += inv; st2.pc += inv
                    X.compare(f'jit/{spec.opname(opc)}', Js.eng.explore(st1, cuts={(Js.f.name, Js.head)}), Jn.eng.explore(st2, cuts={(Jn.f.name, Jn.head)}), (view(Js), view(Jn)),
                              lambda m, P=P1, opc=opc: dict(opc=opc, regbyte=obl.mval(m, P.regbyte), off=obl.mval(m, P.off), imm=obl.mval(m, P.imm)))
                except Unsupported as e: pr.out['errors'].append(f'jit {opc}: {e}')
            note(Js.eng, ms, 'std'); note(Jn.eng, mn, 'no_std')
        elif comp == 'lib':
            import libsym
            def named(v, feats):
                """lazily materialised structs keyed by declared field name (indices differ between feature sets)"""
                if isinstance(v, LazyObj):
                    names = tt.field_names(re.sub(r"^&('\w+\s+)?(mut\s+)?", '', (v.ty or '').strip()), feats) or []
                    return {'$obj': v.name, **{(names[k] if isinstance(k, int) and k < len(names) else str(k)): named(x, feats) for k, x in v.fields.items() if not (isinstance(k, int) and k < len(names) and names[k] == 'custom_exec_memory')}}
                if isinstance(v, Agg): return [named(x, feats) for x in v.f]
                if isinstance(v, Enum): return Enum(v.d, {k: [named(x, feats) for x in p] for k, p in v.payload.items()}, v.ty)
                if isinstance(v, (list, tuple)): return [named(x, feats) for x in v if not is_exec_mem(x)]
                if isinstance(v, Opaque): return Opaque(v.tag, tuple(named(x, feats) for x in v.args))
                return v
            def is_exec_mem(a): return isinstance(a, Slice) and 'custom_exec_memory' in str(a.base)
            def view(L, feats):
                def v(p):
                    d = dict(kind=p.kind, events=[(e[0], [named(a, feats) for a in e[1] if not is_exec_mem(a)]) for e in p.st.events])
                    if p.kind == 'return':
                        d['ret'] = named(p.payload, feats)
                        sv = p.st.aux.get('final_locals', {}).get(L.func.params[0][0]) if L.func.params else None
                        if isinstance(sv, LazyObj): d['self'] = named(sv, feats)
                    if p.kind == 'panic': d['panic'] = str(p.payload[0])
                    return d
                return v
            for (vm, meth) in items:
                try:
                    Ls = libsym.LibRun(ms, tt, timeout); Ls.eng.ctx['lazy_field_names'] = {'std'}
                    Ln = libsym.LibRun(mn, tt, timeout); Ln.eng.ctx['lazy_field_names'] = set()
                    try: libsym.find_method(ms, vm, meth); libsym.find_method(mn, vm, meth)
                    except Unsupported: continue
                    # premise of the statement for the JIT: executable memory has been supplied by the caller
                    pre = [BitVec(n, 64) == 1 for n in ('self.custom_exec_memory.is_some', 'self.parent.custom_exec_memory.is_some', 'self.parent.parent.custom_exec_memory.is_some')]
                    ps = Ls.run(vm, meth); pn = Ln.run(vm, meth, pre=pre)
                    lz = Ls.eng.ctx.get('lazy_ranges', []) + Ln.eng.ctx.get('lazy_ranges', [])
                    for q in ps + pn: q.st.pc = list(q.st.pc) + [c for c in lz if not any(c.eq(x) for x in q.st.pc)]
                    X.compare(f'lib/{vm}::{meth}', ps, pn, (view(Ls, {'std'}), view(Ln, set())))
                    note(Ls.eng, ms, 'std'); note(Ln.eng, mn, 'no_std')
                except Unsupported as e: pr.out['errors'].append(f'lib {vm}::{meth}: {e}')
        elif comp == 'jitnew':
            import props.c12a as c12a
            c12a.new_args(mn, tt, timeout, pr, cands)      # the no_std JitMemory::new (caller-supplied executable memory)
        pr.out['functions'].update(used)
        pr.out['cases'] = X.cases
        return dict(out=pr.out, cands=cands)
    except Exception as e:
        return dict(out=dict(errors=[f'c20 worker {comp} crashed: {e}\n{traceback.format_exc()[-1800:]}']), cands=[])


# ------------------------------------------------------------------------------------------ native complement (bounded)
def asm_corpus():
    T = []
    for name, (kind, opc) in sorted(asmcheck.expected_table().items()):
        k = kind.split('(')[0]
        if k == 'AluBinary': T += [f'{name} r1, r2', f'{name} r1, 5', f'{name} r1, -1', f'{name} r9, 0x7fffffff', f'{name} r1, 2147483648', f'{name} r1, -2147483648', f'{name} r1, -2147483649', f'{name} r11, 1', f'{name} r1', f'{name} r1, r2, r3']
        elif k == 'AluUnary': T += [f'{name} r1', f'{name} r10', f'{name} 1', f'{name} r16']
        elif k == 'LoadAbs': T += [f'{name} 0x10', f'{name} -1', f'{name} r1', f'{name} 4294967295', f'{name} 2147483647']
        elif k == 'LoadInd': T += [f'{name} r1, 0x10', f'{name} r1, -2147483648', f'{name} 1, 2']
        elif k == 'LoadImm': T += [f'{name} r1, 0x1122334455667788', f'{name} r1, -1', f'{name} r1, 18446744073709551615', f'{name} r1, 18446744073709551616', f'{name} r1, -9223372036854775808', f'{name} r1, 9223372036854775808', f'{name} r1, 0xffffffffffffffff', f'{name} r1, 0x10000000000000000']
        elif k == 'LoadReg': T += [f'{name} r1, [r2+4]', f'{name} r1, [r2-32768]', f'{name} r1, [r2+32767]', f'{name} r1, [r2+32768]', f'{name} r1, [r2-32769]', f'{name} r1, [r2]', f'{name} r1, [r2+0x7fff]', f'{name} [r2+1], r1']
        elif k == 'StoreImm': T += [f'{name} [r1+2], 3', f'{name} [r1-2], -3', f'{name} [r10-8], 0x7fffffff', f'{name} [r1+2], r3']
        elif k == 'StoreReg': T += [f'{name} [r1+2], r3', f'{name} [r10-0x8000], r0', f'{name} [r1+2], 3']
        elif k == 'JumpUnconditional': T += [f'{name} +3', f'{name} -1', f'{name} 32767', f'{name} 32768', f'{name} -32768', f'{name} -32769', f'{name} r1']
        elif k == 'JumpConditional': T += [f'{name} r1, 2, +3', f'{name} r1, r2, -3', f'{name} r1, -1, +0x7fff', f'{name} r1, r2', f'{name} r1, 2147483648, +1']
        elif k == 'Call': T += [f'{name} 5', f'{name} 0xffffffff', f'{name} -1', f'{name} 2147483648', f'{name} r1']
        elif k == 'Endian': T += [f'{name} r1', f'{name} r10', f'{name} 1']
        elif k == 'NoOperand': T += [f'{name}', f'{name} 1']
    T += ['', '\n\n', 'foo r1', 'mov r0, 1 exit', 'exit\n^', 'lsh r', 'mov r0,1', 'mov   r0 ,\t1', 'MOV r0, 1', 'mov r0, 0x', 'mov r0, 0xg', 'mov r0, 00000000000000000000001', 'mov r0, +1', 'mov r0, - 1', 'mov r01, 1',
          'ldxw r1, [r2 + 4]', 'ldxw r1, [r2+ 4]', 'ldxw r1, [ r2+4 ]', 'ldxw r1, [r2+-4]', 'ja +', 'exit exit', 'mov r0, 1\nexit\n', 'mov r0, 1;exit', 'mov r0, 1 # c', '\u00e9xit', 'mov r0, 9223372036854775807', 'mov r0, 9223372036854775808',
          'mov r0, 99999999999999999999', 'mov r0, 0xffffffffffffffff', 'mov r0, 0x1ffffffffffffffff', 'mov r340282366920938463463374607431768211456, 1', 'mov r-1, 1', 'lddw r0, 0x1\nexit']
    # layout variants: the grammar treats any run of blanks, tabs and line breaks as a separator
    base = [t for t in T if ' ' in t and '\n' not in t][::9]
    for t in base:
        for rep_ in ('\n', '\t', '  ', ' \n '):
            for i, ch in enumerate(t):
                if ch == ' ': T.append(t[:i] + rep_ + t[i + 1:])
        T.append(t + '\n' + t); T.append('\n' + t + '\n\n'); T.append(t.replace(', ', ','))
    return T


def exec_corpus():
    """address-free deterministic programs: every register is initialised with a constant, one instruction under test, all registers folded into r0"""
    from ref import insn, lddw
    C = [0x0123456789abcdef, 0xfedcba9876543210, 5, 0xffffffff80000001, 63, 0x8000000000000000, 0x7fffffff, 0xffffffffffffffff, 33, 0]
    init = b''.join(lddw(i, C[i]) for i in range(10)); fold = b''.join(insn(0xaf, 0, i) for i in range(1, 10)) + insn(0x95)
    P = []
    for opc in spec.VERIFIER_OK:
        k, i = spec.classify(opc); name = spec.opname(opc)
        if k == 'alu':
            for (d, s_, im) in [(1, 2, 0), (3, 4, -1), (0, 3, 0x7fffffff), (6, 6, 5), (1, 9, 33), (5, 8, 64)]: P.append((f'{name}[{d},{s_},{im}]', init + insn(opc, d, s_, 0, im) + fold, []))
        elif k == 'endian':
            for w in (16, 32, 64): P.append((f'{name}[{w}]', init + insn(opc, 1, 0, 0, w) + fold, []))
        elif k in ('ja', 'jcond'):
            for (d, s_, im) in [(1, 2, 0), (3, 7, -1), (2, 2, 5), (5, 0, 0x7fffffff), (9, 9, 0)]: P.append((f'{name}[{d},{s_},{im}]', init + insn(opc, d, s_, 1, im) + insn(0xb7, 5, 0, 0, 77) + fold, []))
        elif k == 'call':
            P.append((f'{name}[helper]', init + insn(opc, 0, 0, 0, 1) + fold, [[1, 'h1']]))
            P.append((f'{name}[unknown-helper]', init + insn(opc, 0, 0, 0, 9) + fold, [[1, 'h1']]))
            P.append((f'{name}[local]', init + insn(opc, 0, 1, 0, 10) + fold + insn(0xb7, 0, 0, 0, 3) + insn(0x07, 6, 0, 0, 1) + insn(0x95), []))
        elif k in ('ldx', 'st', 'stx', 'xadd'):
            for off in (-8, -12):
                body = insn(0x7b, 10, 1, -8) + insn(0x7b, 10, 3, -16)
                if k == 'ldx': body += insn(opc, 2, 10, off)
                elif k == 'st': body += insn(opc, 10, 0, off, 0x7fffff80)
                elif k == 'stx': body += insn(opc, 10, 7, off)
                else: body += insn(opc, 10, 4, -8 if off == -8 else -16)
                P.append((f'{name}[{off}]', init + body + insn(0x79, 4, 10, -8) + insn(0x79, 5, 10, -16) + fold, []))
            P.append((f'{name}[out-of-bounds]', init + insn(0xbf, 6, 10) + insn(0x07, 6, 0, 0, 8) + (insn(opc, 2, 6, 0) if k == 'ldx' else insn(opc, 6, 2, 0, 0)) + fold, []))
        elif k in ('ldabs', 'ldind'):
            for im in (0, 3, 60, 64, -1): P.append((f'{name}[{im}]', init + insn(opc, 0, 2, 0, im) + fold, []))
    P.append(('exit-only', insn(0xb7, 0, 0, 0, 0) + insn(0x95), []))
    return P


NATIVE_DIFFS = []


def part_native(rep, cands):
    """the same corpus through both builds of the native driver; any difference in verdict / bytes / entries / value is reported (bounded complement;
    it also reaches the combine grammar layer, which the solver part cannot)"""
    from driver import Driver
    import ref
    from props import c12
    ds = Driver.get('dev', features=('std',)); dn = Driver.get('dev', features=())
    n = 0
    def cmp(role, what, a, b, keys):
        nonlocal n
        n += 1; rep.obligations += 1
        na = lambda r: {k: (re.sub(r'0x[0-9a-fA-F]+|\b\d{9,}\b', 'ADDR', str(r.get(k))) if k == 'msg' else r.get(k)) for k in keys}       # error texts quote process-specific addresses
        da = na(a); db = na(b)
        if da != db: NATIVE_DIFFS.append(f'{what}: std {str(da)[:160]} / no_std {str(db)[:160]}')
        if da != db: cands.append(dict(role=f'native/{role}', detail=f'{what}: std {str(da)[:200]} / no_std {str(db)[:200]}', model=None, friendly=True, native=True))
        else: rep.discharged += 1
    for t in asm_corpus():
        cmp('assemble:' + (t.split()[0] if t.split() else 'empty')[:12], f'assemble({t!r})', ds.request(dict(op='assemble', text=t)), dn.request(dict(op='assemble', text=t)), ('status', 'bytes'))
    progs = [(name, prog, hs) for name, prog, hs in c12.families('quick') if len(prog) <= 8 * 600]
    bad = []
    for name, prog, hs in progs[::7]:
        b = bytearray(prog); b[1] = 0x0b; bad.append((name + '/dst11', bytes(b), hs))
        bad.append((name + '/truncated', prog[:-4], hs)); bad.append((name + '/no-exit', prog[:-8], hs))
        b = bytearray(prog); b[0] = 0xff if b[0] != 0xff else 0x06; bad.append((name + '/opcode', bytes(b), hs))
    mem = bytes(range(64)); mb = bytes(64)
    for name, prog, hs in progs + bad:
        short = name.split('[')[0]
        a = ds.request(dict(op='load', prog=prog.hex())); b = dn.request(dict(op='load', prog=prog.hex()))
        cmp(f'verifier:{short}', f'verifier verdict on {name}', a, b, ('new', 'set_program'))
        if len(prog) % 8 == 0 and len(prog) > 0:
            cmp(f'disassemble:{short}', f'to_insn_vec on {name}', ds.request(dict(op='disassemble', prog=prog.hex())), dn.request(dict(op='disassemble', prog=prog.hex())), ('status', 'insns'))
    for name, prog, hs in exec_corpus():
        for eng in ('interp', 'jit'):
            if eng == 'jit' and ('out-of-bounds' in name or 'ldabs' in name or 'ldind' in name): continue      # the JIT performs no bounds checks: behaviour on such accesses is not defined by either build
            kw = dict(vm='mbuff', mem=mem, mbuff=mb, engine=eng, helpers=hs, timeout_s=10)
            cmp(f'{eng}:{name.split("[")[0]}', f'{eng} run of {name}', ds.run(prog, **kw), dn.run(prog, **kw), ('status', 'value', 'mem', 'mbuff', 'hlog') + (('msg',) if eng == 'interp' else ()))
    # API call sequences (compile / reload / refused reload / custom verifier / helpers) on every VM kind
    ta = ds.request(dict(op='api_transcript', timeout_s=60)); tb = dn.request(dict(op='api_transcript', timeout_s=60))
    if ta.get('status') != 'ok' or tb.get('status') != 'ok' or len(ta.get('transcript', [])) != len(tb.get('transcript', [])):
        cands.append(dict(role='native/api-transcript', detail=f'transcripts: std {str(ta)[:200]} / no_std {str(tb)[:200]}', model=None, friendly=True, native=True))
    else:
        for x, y in zip(ta['transcript'], tb['transcript']):
            n += 1; rep.obligations += 1
            if x != y: NATIVE_DIFFS.append(f'std: {x} / no_std: {y}')
            if x != y: cands.append(dict(role='native/api:' + x.split(':')[0].replace(' ', '-')[:50], detail=f'std: {x} / no_std: {y}', model=None, friendly=True, native=True))
            else: rep.discharged += 1
    rep.extra['native_comparisons'] = n


def replay_c20(c):
    """native candidates are observations; a solver candidate is confirmed by running the instruction of its model through both native builds"""
    if c.get('native'): return True, 'observed natively (two builds of the driver)'
    from driver import Driver
    from ref import insn
    ds = Driver.get('dev', features=('std',)); dn = Driver.get('dev', features=())
    m = c.get('model') or {}; role = c['role']; comp = role.split('/')[0]
    if comp == 'jit-new':
        # caller memory smaller than the code / not page aligned must give Err in the no_std build; equal results otherwise
        F = insn(0xb4, 0, 0, 0, 1); EX = insn(0x95)
        for nins in (1, 700, 1400, 3000):
            for em in (4096, 8192, 4096 * 5, 1 << 24):
                r = dn.request(dict(op='compile', vm='mbuff', prog=(F * nins + EX).hex(), engine='jit', helpers=[], isolate=True, exec_mem=em))
                s = ds.request(dict(op='compile', vm='mbuff', prog=(F * nins + EX).hex(), engine='jit', helpers=[], isolate=True))
                if r.get('status') not in ('ok', 'err') or (em == 1 << 24 and r.get('status') != s.get('status')):
                    c['replay'] = dict(insns=nins + 1, exec_mem=em, no_std=r, std=s); return True, f'no_std jit_compile of {nins + 1} instructions into {em} bytes: {r.get("status")} {str(r.get("msg", ""))[:120]} (std: {s.get("status")})'
        return False, 'native no_std compilations into small / large caller memory behave (Ok or Err)'
    if comp == 'lib' or 'opc' not in m:
        # API-level counterexample (what a wrapper hands to an engine / leaves in the VM): confirmed through the public API by the native complement
        # (API call sequences and the execution corpus on all four VM kinds, both builds)
        rel = [d for d in NATIVE_DIFFS if (role.split('/')[1].split('::')[0] in d or 'api' in d or 'jit' in d)] or NATIVE_DIFFS
        if rel: c['replay'] = dict(native_differences=rel[:5]); return True, f'{len(rel)} native difference(s) between the builds, e.g. {rel[0][:200]}'
        return False, 'the native complement (API sequences, execution corpus; both builds) shows no difference'
    opc = m['opc']; rb = m.get('regbyte', (m.get('dst', 0) & 15) | ((m.get('src', 0) & 15) << 4)); off = m.get('off', 0); imm = m.get('imm', 0)
    one = bytes([opc, rb & 0xff]) + (off & 0xffff).to_bytes(2, 'little') + (imm & 0xffffffff).to_bytes(4, 'little')
    prog = one + (insn(0, 0, 0, 0, 0) if opc == 0x18 else b'') + insn(0xbf, 0, 0) + insn(0x95)
    outs = []
    for op, keys in (('load', ('new', 'set_program')), ('disassemble', ('status', 'insns'))):
        a = ds.request(dict(op=op, prog=prog.hex())); b = dn.request(dict(op=op, prog=prog.hex()))
        if {k: a.get(k) for k in keys} != {k: b.get(k) for k in keys}: c['replay'] = dict(prog=prog.hex(), op=op, std=a, no_std=b); return True, f'{op} differs natively'
    for eng in ('interp', 'jit'):
        kw = dict(vm='mbuff', mem=bytes(range(64)), mbuff=bytes(64), engine=eng, timeout_s=10)
        a = ds.run(prog, **kw); b = dn.run(prog, **kw); keys = ('status', 'value', 'mem', 'mbuff')
        if {k: a.get(k) for k in keys} != {k: b.get(k) for k in keys}: c['replay'] = dict(prog=prog.hex(), engine=eng, std={k: a.get(k) for k in keys + ('msg',)}, no_std={k: b.get(k) for k in keys + ('msg',)}); return True, f'{eng} run differs natively'
    return False, 'the instruction of the model behaves the same in both native builds (registers of the model are not reproduced by this replay)'


def run():
    import multiprocessing as mp
    rep = Report('C20', 'model_checking', '5/C20')
    timeout = 20000 if common.tier() == 'quick' else 120000
    common.load_mir('std'); common.load_mir('nostd')
    nj = min(common.jobs(), 16)
    tasks = []
    def shard(comp, items, k):
        for i in range(k):
            if items[i::k]: tasks.append((comp, items[i::k], timeout))
    shard('interp', ['prelude'] + list(spec.VERIFIER_OK), 6)
    shard('verifier', ['prog_len'] + list(range(256)), 3)
    shard('disasm', list(spec.SUPPORTED), 2)
    shard('jit', ['prologue'] + list(spec.VERIFIER_OK), 8)
    table = asmcheck.expected_table(); seen = set(); ent = []
    for name, (kind, opc) in sorted(table.items()):
        if kind not in seen: seen.add(kind); ent.append((name, kind, opc))
    shard('asm', ent, 1)
    tasks.append(('jitnew', ['new'], timeout))
    shard('lib', [(vm, me) for vm in ('mbuff', 'fixed', 'raw', 'nodata') for me in ('set_program', 'set_verifier', 'register_helper', 'register_allowed_memory', 'execute_program', 'jit_compile', 'execute_program_jit')], 2)
    with mp.Pool(nj) as pool: res = pool.map(worker, tasks, chunksize=1)
    cands = []
    for r in res:
        rep.merge_counts(r['out']); cands += r['cands']
    rep.extra['cases_compared'] = sum(r['out'].get('cases', 0) for r in res)
    rep.assumptions += ['both MIR dumps are taken from the same working tree (features std / none); the comparison is of the symbolic outcomes of the same extraction, so every stub of C01/C06/C12/C13/C15 applies to both sides identically',
                        'Err payloads are compared as (constructor, error kind, format template, arguments) - the rendered text is the same function of those in both builds',
                        'NOT covered: the combine grammar layer of asm_parser (easy_parse vs parse entry points: generic combinator code is outside the reach of the solver front ends here); helpers that exist only with std; Cranelift (std only)']
    rep.bounds = dict(interpreter='one loop iteration per opcode from an arbitrary state + prelude', verifier='check_prog_len + one iteration per opcode byte (256)', disassembler='one iteration per opcode',
                      assembler='encode/insn per instruction kind x 0..4 symbolic operands', jit='prologue + one iteration per opcode in the emitting pass (all fields, any offset)')
    part_native(rep, cands)
    return rep.finish(cands, replay_c20)


def replay(path):
    d = json.load(open(path)); print(json.dumps(d, indent=1)); return 0
