"""C20 -- the no_std build answers like the default build.
Product check: the same extraction (mirsym over rustc MIR) is run on the MIR dump of both feature configurations
(`--features std` and `--no-default-features`) from the same symbolic input, and z3 is asked whether any outcome can
differ: outcome kind (continue / return / panic), returned value incl. the Err payload (error kind, format template and
arguments), registers, pc, frames, memory, access log, helper events, emitted code bytes.  Components: interpreter
(prelude + one loop iteration per opcode), verifier (check_prog_len, one iteration per opcode byte), disassembler (one
iteration per opcode), assembler encode (per mnemonic-table entry) + literal closures, x86-64 JIT (prologue, one
iteration per opcode in the emitting pass, epilogue) and the no_std JitMemory::new (same arguments to both passes,
caller memory large enough and page aligned, else Err).  The combine grammar layer is not encodable (stated)."""
import json, traceback, re
from z3 import (BitVec, BitVecVal, Bool, BoolVal, And, Or, Not, If, ULT, ULE, UGE, Extract, ZeroExt, simplify, is_true, is_false, is_expr, Array, BitVecSort, URem)
import common, mirsym, spec, obl, verif, interp, asmcheck
from mirsym import V, Agg, Enum, Slice, Opaque, Ptr, Ref, LazyObj, Unsupported, Str, Closure
from common import Report


class Mismatch(Exception):
    pass


def norm_name(s):
    s = re.sub(r'\b(std|core|alloc)::', '', s)
    s = re.sub(r'\b(io::Error|no_std_error::Error)\b', 'Error', s)
    s = re.sub(r'\b(io::ErrorKind|no_std_error::ErrorKind|io::error::ErrorKind)\b', 'ErrorKind', s)
    return s


def deep_eq(a, b, eqs, where='value'):
    """structural comparison of two mirsym values; z3 terms that are not syntactically equal are collected in eqs"""
    if a is None and b is None: return
    if isinstance(a, (int, bool)) and not isinstance(a, bool) and is_expr(b): a = BitVecVal(a, b.size())
    if isinstance(b, (int, bool)) and not isinstance(b, bool) and is_expr(a): b = BitVecVal(b, a.size())
    if is_expr(a) and is_expr(b):
        if a.eq(b): return
        if a.sort() != b.sort(): raise Mismatch(f'{where}: sorts {a.sort()} / {b.sort()}')
        eqs.append((where, a == b)); return
    if type(a) is not type(b): raise Mismatch(f'{where}: {type(a).__name__} / {type(b).__name__}: {str(a)[:80]} / {str(b)[:80]}')
    if isinstance(a, V): return deep_eq(a.t, b.t, eqs, where)
    if isinstance(a, (str, int, bool, float)):
        if (norm_name(a) if isinstance(a, str) else a) != (norm_name(b) if isinstance(b, str) else b): raise Mismatch(f'{where}: {a!r} / {b!r}')
        return
    if isinstance(a, (list, tuple)):
        if len(a) != len(b): raise Mismatch(f'{where}: lengths {len(a)} / {len(b)}')
        for i, (x, y) in enumerate(zip(a, b)): deep_eq(x, y, eqs, f'{where}[{i}]')
        return
    if isinstance(a, dict):
        if set(a) != set(b): raise Mismatch(f'{where}: keys {sorted(map(str, a))} / {sorted(map(str, b))}')
        for k in a: deep_eq(a[k], b[k], eqs, f'{where}.{k}')
        return
    if isinstance(a, Agg): return deep_eq(list(a.f), list(b.f), eqs, where)
    if isinstance(a, Enum):
        deep_eq(a.disc(), b.disc(), eqs, where + '.discr')
        for k in set(a.payload) | set(b.payload):
            pa, pb = a.payload.get(k), b.payload.get(k)
            if pa and pb: deep_eq(list(pa), list(pb), eqs, f'{where}.variant{k}')
        return
    if isinstance(a, Slice): deep_eq(a.base, b.base, eqs, where + '.ptr'); deep_eq(a.len, b.len, eqs, where + '.len'); return
    if isinstance(a, Ptr): return deep_eq(a.addr, b.addr, eqs, where + '.addr')
    if isinstance(a, Str): return deep_eq(a.s if isinstance(a.s, (str, bytes)) else str(a.s), b.s if isinstance(b.s, (str, bytes)) else str(b.s), eqs, where)
    if isinstance(a, bytes):
        if a != b: raise Mismatch(f'{where}: {a!r} / {b!r}')
        return
    if isinstance(a, Opaque):
        if norm_name(str(a.tag)) != norm_name(str(b.tag)): raise Mismatch(f'{where}: {a.tag} / {b.tag}')
        return deep_eq(tuple(a.args), tuple(b.args), eqs, f'{where}<{a.tag}>')
    if isinstance(a, LazyObj):
        if a.name != b.name: raise Mismatch(f'{where}: {a.name} / {b.name}')
        return
    if isinstance(a, Ref):
        if (a.local, len(a.proj)) != (b.local, len(b.proj)): raise Mismatch(f'{where}: {a} / {b}')
        return
    if isinstance(a, Closure): return
    raise Mismatch(f'{where}: cannot compare {type(a).__name__}')


class Product:
    def __init__(self, pr, cands): self.pr = pr; self.cands = cands; self.cases = 0
    def compare(self, case, PS, PN, view, model_fn=None):
        """PS / PN: path lists of the two builds from the same symbolic pre-state; view(path) -> comparable structure"""
        pr = self.pr; self.cases += 1
        def cand(aspect, detail, m=None):
            self.cands.append(dict(role=f'{case}/{aspect}', detail=detail, model=(model_fn(m) if (m is not None and model_fn) else None), friendly=True))
        aligned = len(PS) == len(PN) and all(len(a.st.pc) == len(b.st.pc) and all(x.eq(y) for x, y in zip(a.st.pc, b.st.pc)) for a, b in zip(PS, PN))
        pairs = list(zip(PS, PN)) if aligned else None
        if pairs is None:
            pairs = []
            for a in PS:
                for b in PN:
                    r, _ = pr.check(list(a.st.pc) + list(b.st.pc), [])
                    if r != 'unsat': pairs.append((a, b))
            # coverage: every std path meets some no_std path
            for a in PS:
                if not any(x is a for x, _ in pairs): cand('no-matching-path', f'std path {a.kind} has no counterpart in the no_std build')
        for a, b in pairs:
            conds = list(a.st.pc) + ([] if aligned else list(b.st.pc))
            pr.out['obligations'] += 1
            if a.kind != b.kind:
                r, m = pr.check(conds, [])
                if r == 'sat': cand('outcome-kind', f'std: {a.kind} {str(a.payload)[:80]} / no_std: {b.kind} {str(b.payload)[:80]}', m)
                elif r != 'unsat': pr.out['inconclusive'].append(f'{case}: kind')
                else: pr.out['discharged'] += 1
                continue
            eqs = []
            try: deep_eq(view(a), view(b), eqs, 'outcome')
            except Mismatch as e:
                r, m = pr.check(conds, [])
                if r == 'sat': cand('outcome-structure', str(e)[:300], m)
                else: pr.out['discharged'] += 1
                continue
            if not eqs:
                pr.out['discharged'] += 1; pr.out['syntactic'] = pr.out.get('syntactic', 0) + 1; continue
            pr.out['obligations'] -= 1
            r, m = pr.prove(f'{case}:same-outcome', conds, And(*[e for _, e in eqs]), sample=f'{case}: both builds give the same outcome on every path')
            if r == 'sat':
                bad = [w for w, e in eqs if is_false(simplify(m.eval(e, model_completion=True)))]
                cand('outcome-value:' + (bad[0] if bad else '?')[:60], f'differs at {bad[:4]}', m)
        if PS and PN: pr.out['witnesses'] += 1


def path_view_generic(p):
    d = dict(kind=p.kind, events=[(e[0],) + tuple(e[1:]) for e in p.st.events], log=[tuple(x) for x in p.st.log])
    if p.kind == 'return': d['ret'] = p.payload
    if p.kind == 'panic': d['panic'] = str(p.payload[0])
    if p.st.mem is not None: d['mem'] = p.st.mem
    return d


# ------------------------------------------------------------------------------------------ components
def worker(args):
    comp, items, timeout = args
    try:
        ms, _ = common.load_mir('std'); mn, _ = common.load_mir('nostd'); tt = common.type_table()
        pr = obl.Prover(timeout, common.seed()); cands = []; X = Product(pr, cands); used = {}
        def note(eng, mir, tag):
            for fn in eng.used_funcs:
                if fn in mir.funcs: used[f'{tag}:{fn}'] = mir.fn_hash(fn)
        if comp == 'interp':
            Is = interp.Interp(ms, tt, 2, True, timeout); In = interp.Interp(mn, tt, 2, True, timeout)
            def view(I):
                def v(p):
                    Q = I.post(p); d = dict(kind=p.kind, mem=Q.M, log=[tuple(x) for x in Q.log], events=[tuple(e) for e in Q.events])
                    if p.kind == 'cut': d.update(regs=Q.regs, pc=Q.pc, sfi=Q.sfi, frames=Q.frames)
                    if p.kind == 'return': d['ret'] = p.payload
                    if p.kind == 'panic': d['panic'] = str(p.payload[0])
                    return d
                return v
            for opc in items:
                if opc == 'prelude':
                    try: X.compare('interp/prelude', Is.prelude_paths(), In.prelude_paths(), lambda p: dict(kind=p.kind, ret=p.payload if p.kind == 'return' else None, fl=(p.st.frames[0].locals.get(Is.names['reg']) if p.st.frames else None)))
                    except Unsupported as e: pr.out['errors'].append(f'interp prelude: {e}')
                    continue
                name = spec.opname(opc)
                try:
                    st1, P1 = Is.make_pre(opc); st2, P2 = In.make_pre(opc)
                    inv = Is.region_assumptions()
                    st1.pc += [c for c in inv if not any(c.eq(x) for x in st1.pc)]; st2.pc = list(st1.pc)
                    X.compare(f'interp/{name}', Is.step_paths(st1), In.step_paths(st2), view(Is),
                              lambda m, P=P1, opc=opc: dict(opc=opc, dst=obl.mval(m, P.dst), src=obl.mval(m, P.src), off=obl.mval(m, P.off), imm=obl.mval(m, P.imm)))
                except Unsupported as e: pr.out['errors'].append(f'interp {name}: {e}')
            note(Is.eng, ms, 'std'); note(In.eng, mn, 'no_std')
        elif comp == 'verifier':
            Vs = verif.Verif(ms, tt, timeout); Vn = verif.Verif(mn, tt, timeout)
            for opc in items:
                try:
                    if opc == 'prog_len':
                        X.compare('verifier/check_prog_len', Vs.prog_len_paths(), Vn.prog_len_paths(), path_view_generic); continue
                    st1, P1 = Vs.make_pre(opc); st2, P2 = Vn.make_pre(opc)
                    def view(V_):
                        return lambda p: dict(path_view_generic(p), nxt=(p.st.frames[0].locals[V_.ip].t if p.kind == 'cut' else None))
                    X.compare(f'verifier/opcode-{opc:#04x}', Vs.step_paths(st1), Vn.step_paths(st2), view(Vs),
                              lambda m, P=P1, opc=opc: dict(opc=opc, regbyte=obl.mval(m, P.regbyte), off=obl.mval(m, P.off), imm=obl.mval(m, P.imm), pc=obl.mval(m, P.pc), n=obl.mval(m, P.n)))
                except Unsupported as e: pr.out['errors'].append(f'verifier {opc}: {e}')
            note(Vs.eng, ms, 'std'); note(Vn.eng, mn, 'no_std')
        elif comp == 'disasm':
            Ds = asmcheck.Disasm(ms, tt, timeout); Dn = asmcheck.Disasm(mn, tt, timeout)
            for opc in items:
                try:
                    P1, ps = Ds.step(opc); P2, pn = Dn.step(opc)
                    def view(D_):
                        return lambda p: dict(path_view_generic(p), nxt=(p.st.frames[0].locals[D_.ip].t if p.kind == 'cut' else None))
                    X.compare(f'disasm/{spec.opname(opc)}', ps, pn, view(Ds), lambda m, P=P1, opc=opc: dict(opc=opc, regbyte=obl.mval(m, P.regbyte), off=obl.mval(m, P.off), imm=obl.mval(m, P.imm)))
                except Unsupported as e: pr.out['errors'].append(f'disasm {opc}: {e}')
            note(Ds.eng, ms, 'std'); note(Dn.eng, mn, 'no_std')
        elif comp == 'asm':
            for (name, kind, opc) in items:
                for nops in range(0, 5):
                    try:
                        rs = asmcheck.run_encode(ms, tt, kind, opc, nops, timeout); rn = asmcheck.run_encode(mn, tt, kind, opc, nops, timeout)
                        X.compare(f'asm/{kind}/{nops}-operands', rs[2], rn[2], path_view_generic)
                    except Unsupported as e: pr.out['errors'].append(f'asm {name}: {e}')
        elif comp == 'jit':
            import props.c12a as c12a
            Js = c12a.JitLoop(ms, tt, timeout); Jn = c12a.JitLoop(mn, tt, timeout)
            Vf = verif.Verif(ms, tt, timeout); alen = Vf.a_len()
            def view(J):
                def v(p):
                    fl = p.st.aux.get('final_locals', {}) if p.kind == 'return' else (p.st.frames[0].locals if p.st.frames else {})
                    jm = fl.get('$jm')
                    d = dict(path_view_generic(p), off=(jm.fields[J.off_field].t if jm is not None and J.off_field in jm.fields else None))
                    return d
                return v
            for opc in items:
                try:
                    if opc == 'prologue':
                        Js.head_state(); Jn.head_state()
                        X.compare('jit/prologue', Js.prologue_paths, Jn.prologue_paths, view(Js)); continue
                    A, _, VP = Vf.accept_formula(opc)
                    st1, P1 = Js.step(opc); st2, P2 = Jn.step(opc)
                    n = Js.prog_len / 8; off0 = Js.jm_offset()
                    inv = [alen, simplify(A), ULT(P1.pc, n), Js.nslots == n + 1, ULE(off0, 1 << 32), ULE(Js.prog_len, 8000000), Js.jm_we(), UGE(Js.jm_len(), off0 + 64), ULE(Js.jm_len(), 1 << 40),
                           ULE(BitVec('jm.contents.ptr', 64), 1 << 62), ULE(BitVec('pc_locs.ptr', 64), 1 << 62)]
                    st1.pc += inv; st2.pc += inv
                    X.compare(f'jit/{spec.opname(opc)}', Js.eng.explore(st1, cuts={(Js.f.name, Js.head)}), Jn.eng.explore(st2, cuts={(Jn.f.name, Jn.head)}), view(Js),
                              lambda m, P=P1, opc=opc: dict(opc=opc, regbyte=obl.mval(m, P.regbyte), off=obl.mval(m, P.off), imm=obl.mval(m, P.imm)))
                except Unsupported as e: pr.out['errors'].append(f'jit {opc}: {e}')
            note(Js.eng, ms, 'std'); note(Jn.eng, mn, 'no_std')
        elif comp == 'jitnew':
            import props.c12a as c12a
            c12a.new_args(mn, tt, timeout, pr, cands)      # the no_std JitMemory::new (caller-supplied executable memory)
        pr.out['functions'].update(used)
        pr.out['cases'] = X.cases
        return dict(out=pr.out, cands=cands)
    except Exception as e:
        return dict(out=dict(errors=[f'c20 worker {comp} crashed: {e}\n{traceback.format_exc()[-1800:]}']), cands=[])


def run():
    import multiprocessing as mp
    rep = Report('C20', 'model_checking', '5/C20')
    timeout = 20000 if common.tier() == 'quick' else 120000
    common.load_mir('std'); common.load_mir('nostd')
    nj = min(common.jobs(), 16)
    tasks = []
    def shard(comp, items, k):
        for i in range(k):
            if items[i::k]: tasks.append((comp, items[i::k], timeout))
    shard('interp', ['prelude'] + list(spec.VERIFIER_OK), 6)
    shard('verifier', ['prog_len'] + list(range(256)), 3)
    shard('disasm', list(spec.SUPPORTED), 2)
    shard('jit', ['prologue'] + list(spec.VERIFIER_OK), 8)
    table = asmcheck.expected_table(); seen = set(); ent = []
    for name, (kind, opc) in sorted(table.items()):
        if kind not in seen: seen.add(kind); ent.append((name, kind, opc))
    shard('asm', ent, 1)
    tasks.append(('jitnew', ['new'], timeout))
    with mp.Pool(nj) as pool: res = pool.map(worker, tasks, chunksize=1)
    cands = []
    for r in res:
        rep.merge_counts(r['out']); cands += r['cands']
    rep.extra['cases_compared'] = sum(r['out'].get('cases', 0) for r in res)
    rep.assumptions += ['both MIR dumps are taken from the same working tree (features std / none); the comparison is of the symbolic outcomes of the same extraction, so every stub of C01/C06/C12/C13/C15 applies to both sides identically',
                        'Err payloads are compared as (constructor, error kind, format template, arguments) - the rendered text is the same function of those in both builds',
                        'NOT covered: the combine grammar layer of asm_parser (easy_parse vs parse entry points: generic combinator code is outside the reach of the solver front ends here); helpers that exist only with std; Cranelift (std only)']
    rep.bounds = dict(interpreter='one loop iteration per opcode from an arbitrary state + prelude', verifier='check_prog_len + one iteration per opcode byte (256)', disassembler='one iteration per opcode',
                      assembler='encode/insn per instruction kind x 0..4 symbolic operands', jit='prologue + one iteration per opcode in the emitting pass (all fields, any offset)')
    return rep.finish(cands, None)


def replay(path):
    d = json.load(open(path)); print(json.dumps(d, indent=1)); return 0
