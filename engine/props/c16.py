"""C16 -- assembling the disassembler's output reproduces the program."""
import props.c15 as c15
def run(): return c15.run('C16')
def replay(path): return c15.replay(path)
