#!/usr/bin/env python3-vt
"""Runner for the Kani proof harnesses in /verif/kani (leaf functions: C17, part of C19).

    python3-vt /verif/engine/kani_run.py C17 quick
    python3-vt /verif/engine/kani_run.py C17 C19 thorough --json

API:  run(harness_prefixes, tier) -> dict

    {"harnesses": [{"name": "c17_builder::c17_builder_alu", "status": "success" | "failure" |
                    "timeout" | "error", "seconds": 4.3, "checks_total": N, "checks_failed": M,
                    "covers_satisfied": a, "covers_total": b, "unwind": 10 | None,
                    "failed_checks": ["description @ location", ...],
                    "counterexample": "...printed concrete playback test..." (failures only)}],
     "wall_s": ..., "tier": ..., "ok": bool, ...}

How it works
  * /repo/Cargo.lock is copied next to /verif/kani/Cargo.toml on every run (the harness crate
    has a path dependency on /repo; cargo notices any change of /repo's working tree and
    rebuilds, so the proofs always talk about the CURRENT tree).
  * the harnesses are enumerated from the sources of /verif/kani (every `#[kani::proof]` fn);
    a harness is selected when its function name starts with one of the prefixes
    ("C17" / "c17" / "c17_" / "c17_builder" ... ; names must start with c17_ / c19_).
  * ONE `cargo kani` process builds once and verifies the selected harnesses in parallel
    (`-j`), writing one result file per harness (`--output-into-files`); Kani's own
    `--harness-timeout` is the per-harness wall-clock limit (quick 240 s, thorough 900 s)
    and RLIMIT_AS (12 GB, per process, so per cbmc) is the memory cap. Measured on this
    machine one process with -j is faster than many `cargo kani --harness X` processes
    (those serialise on the target-dir lock and each re-runs kani-compiler).
  * "success" needs `VERIFICATION:- SUCCESSFUL`, zero failed checks, no check with an
    undetermined / error status, and ALL cover properties SATISFIED.  A timeout, an
    out-of-memory abort, a missing result file or a build error is never a success.
  * harnesses that fail (at most MAX_PLAYBACK = 8 of them; `playback=N` / `--playback=N`,
    `--no-playback`) are re-run with `-Z concrete-playback --concrete-playback=print`
    and the printed unit tests of the FAILED checks (concrete values of every kani::any()
    in program order) are attached as "counterexample".
  * tier "thorough" builds the crate with `--features thorough` (larger bounds where a
    harness has bounds at all) and uses the longer timeout.

Plain stdlib only. No network: CARGO_NET_OFFLINE=true is exported (cargo kani has no
--offline flag).
"""

import json
import os
import re
import resource
import shutil
import subprocess
import sys
import time

KANI_DIR = "/verif/kani"
REPO_DIR = "/repo"
TARGET_DIR = "/verif/.work/kani-target"

TIERS = {
    # per-harness timeout [s], cargo features
    "quick": {"timeout": 240, "features": []},
    "thorough": {"timeout": 900, "features": ["thorough"]},
}
MEM_CAP_BYTES = 12 * 1024 ** 3          # RLIMIT_AS per process (cbmc, kani-compiler, ...)
BUILD_ALLOWANCE_S = 600                  # first build of rbpf + harness crate is ~40 s
ALLOWED_NAME = re.compile(r"^c(17|19)_")
MAX_PLAYBACK = 8                         # failing harnesses re-run for concrete values
MAX_TESTS_PER_HARNESS = 2                # printed playback tests kept per harness


# ----------------------------------------------------------------------------------------
# harness enumeration (from the sources, independent of Kani's artifacts)
# ----------------------------------------------------------------------------------------

def _list_harnesses(crate_dir, features):
    """[(module, fn_name, unwind or None)] for every #[kani::proof] function."""
    out = []
    src = os.path.join(crate_dir, "src")
    for fn in sorted(os.listdir(src)):
        if not fn.endswith(".rs"):
            continue
        module = fn[:-3]
        lines = open(os.path.join(src, fn)).read().split("\n")
        i = 0
        while i < len(lines):
            if lines[i].strip() == "#[kani::proof]":
                unwind = None
                j = i + 1
                while j < len(lines):
                    s = lines[j].strip()
                    m = re.match(r"(pub\s+)?fn\s+([A-Za-z0-9_]+)", s)
                    if m:
                        out.append((module, m.group(2), unwind))
                        break
                    m = re.match(r"#\[kani::unwind\((\d+)\)\]", s)
                    if m:
                        unwind = int(m.group(1))
                    m = re.match(
                        r'#\[cfg_attr\((not\()?feature\s*=\s*"([a-z_]+)"\)?,\s*'
                        r"kani::unwind\((\d+)\)\)\]", s)
                    if m:
                        active = (m.group(2) in features) != bool(m.group(1))
                        if active:
                            unwind = int(m.group(3))
                    j += 1
                i = j
            i += 1
    return out


def _normalise_prefix(p):
    p = p.strip().lower()
    if re.fullmatch(r"c\d+", p):
        p += "_"
    return p


# ----------------------------------------------------------------------------------------
# parsing of Kani's per-harness result file (regular output format)
# ----------------------------------------------------------------------------------------

_CHECK_SPLIT_RE = re.compile(r"^Check \d+: ", re.M)


def _parse_result(text):
    r = {"checks_total": 0, "checks_failed": 0, "covers_satisfied": 0, "covers_total": 0,
         "failed_checks": [], "verdict": None, "seconds": None, "timed_out": False,
         "undetermined": 0}
    body = text.split("\nSUMMARY:")[0]
    undet = []
    for block in _CHECK_SPLIT_RE.split(body)[1:]:
        prop = block.split("\n", 1)[0].strip()
        m = re.search(r"^\t - Status: (\S+)", block, re.M)
        status = m.group(1) if m else "MISSING"
        # descriptions may span several lines
        m = re.search(r"^\t - Description: \"(.*?)\"\s*(?:\n\t - Location:|\Z)", block,
                      re.M | re.S)
        desc = " ".join(m.group(1).split()) if m else ""
        m = re.search(r"^\t - Location: (.*)$", block, re.M)
        loc = m.group(1).strip() if m else None
        where = " @ " + loc if loc else ""
        is_cover = ".cover." in prop or status in ("SATISFIED", "UNSATISFIABLE",
                                                   "UNSATISFIED")
        if is_cover:
            r["covers_total"] += 1
            if status == "SATISFIED":
                r["covers_satisfied"] += 1
            else:
                r["failed_checks"].append("cover %s: %s%s" % (status, desc, where))
        else:
            r["checks_total"] += 1
            if status == "FAILURE":
                r["checks_failed"] += 1
                r["failed_checks"].append("%s%s" % (desc, where))
            elif status not in ("SUCCESS", "UNREACHABLE"):
                # UNDETERMINED, ERROR, MISSING ...: not a proof
                r["undetermined"] += 1
                undet.append("%s: %s%s" % (status, desc, where))
    if undet:
        # Kani marks every other check UNDETERMINED once one check fails: summarise then
        if r["checks_failed"] > 0:
            r["failed_checks"].append("(+ %d checks UNDETERMINED as a consequence)"
                                      % len(undet))
        else:
            r["failed_checks"] += undet[:10]
            if len(undet) > 10:
                r["failed_checks"].append("(+ %d more not SUCCESS)" % (len(undet) - 10))
    # cross-check with the summary lines
    m = re.search(r"\*\* (\d+) of (\d+) failed", text)
    if m:
        r["summary_failed"], r["summary_total"] = int(m.group(1)), int(m.group(2))
    m = re.search(r"\*\* (\d+) of (\d+) cover properties satisfied", text)
    if m:
        r["summary_cov_sat"], r["summary_cov_total"] = int(m.group(1)), int(m.group(2))
    if "VERIFICATION:- SUCCESSFUL" in text:
        r["verdict"] = "SUCCESSFUL"
    elif "VERIFICATION:- FAILED" in text:
        r["verdict"] = "FAILED"
    m = re.search(r"Verification Time: ([0-9.]+)s", text)
    if m:
        r["seconds"] = float(m.group(1))
    if "CBMC timed out" in text:
        r["timed_out"] = True
    r["cbmc_failed"] = "CBMC failed" in text or "Status: ERROR" in text
    return r


def _consistent(p):
    """the check list we parsed agrees with Kani's own summary lines"""
    return (p.get("summary_total") == p["checks_total"]
            and p.get("summary_failed") == p["checks_failed"]
            and p.get("summary_cov_total", 0) == p["covers_total"]
            and p.get("summary_cov_sat", 0) == p["covers_satisfied"])


def _classify(p):
    """status from a parsed result"""
    if p["timed_out"]:
        return "timeout"
    if p["verdict"] is None:
        return "error"
    if p["verdict"] == "SUCCESSFUL" and not _consistent(p):
        return "error"
    if p["verdict"] == "SUCCESSFUL":
        ok = (p["checks_failed"] == 0 and p["undetermined"] == 0
              and p["covers_satisfied"] == p["covers_total"]
              and p["checks_total"] > 0
              and p["covers_total"] > 0          # every harness must carry a witness
              and p.get("summary_failed", 0) == 0
              and p.get("summary_cov_sat", p["covers_satisfied"])
              == p.get("summary_cov_total", p["covers_total"])
              and not p["cbmc_failed"])
        if ok:
            return "success"
        if p["cbmc_failed"]:
            return "error"
        return "failure"       # e.g. an unsatisfied cover: Kani still says SUCCESSFUL
    # FAILED
    if p["checks_failed"] > 0 or p["undetermined"] > 0 or p["checks_total"] > 0:
        return "failure"
    return "error"             # "CBMC failed" without results: crash / out of memory


# ----------------------------------------------------------------------------------------
# process handling
# ----------------------------------------------------------------------------------------

def _limits():
    resource.setrlimit(resource.RLIMIT_AS, (MEM_CAP_BYTES, MEM_CAP_BYTES))
    os.setsid()


def _env():
    env = dict(os.environ)
    env["CARGO_NET_OFFLINE"] = "true"
    env.pop("RUSTFLAGS", None)
    env["CARGO_TERM_COLOR"] = "never"
    return env


def _run_proc(cmd, cwd, timeout):
    """-> (returncode or None on timeout, combined output)"""
    t0 = time.time()
    proc = subprocess.Popen(cmd, cwd=cwd, env=_env(), stdout=subprocess.PIPE,
                            stderr=subprocess.STDOUT, preexec_fn=_limits, text=True,
                            errors="replace")
    try:
        out, _ = proc.communicate(timeout=timeout)
        return proc.returncode, out, time.time() - t0
    except subprocess.TimeoutExpired:
        try:
            os.killpg(proc.pid, 9)
        except OSError:
            pass
        out, _ = proc.communicate()
        return None, out, time.time() - t0


def _prune_target(target_dir, limit_bytes=2 * 1024 ** 3):
    """every distinct harness selection leaves an artifact directory (up to ~40 MB) behind;
    start from scratch (one ~40 s rebuild) when the target dir has grown beyond 2 GB"""
    total = 0
    for root, _dirs, files in os.walk(target_dir):
        for f in files:
            try:
                total += os.lstat(os.path.join(root, f)).st_size
            except OSError:
                pass
    if total > limit_bytes:
        shutil.rmtree(target_dir, ignore_errors=True)


def _strip_noise(out):
    """drop the `register_tool` warnings that kani's rustc prints for every crate"""
    keep = []
    skip = 0
    for line in out.split("\n"):
        if skip:
            skip -= 1
            continue
        if line.startswith("warning: use of an unstable feature"):
            skip = 7
            continue
        keep.append(line)
    return "\n".join(keep)


def _playback(full_name, crate_dir, target_dir, features, timeout):
    """concrete values for a failing harness (printed unit test), or None"""
    cmd = ["cargo", "kani", "--target-dir", target_dir, "--harness", full_name, "--exact",
           "--output-format", "terse", "-Z", "concrete-playback",
           "--concrete-playback=print"]
    if features:
        cmd += ["--features", ",".join(features)]
    rc, out, _ = _run_proc(cmd, crate_dir, timeout)
    if rc is None:
        return None
    # one test is printed per failed check AND per satisfied cover: keep the failed checks
    tests = re.findall(r"Concrete playback unit test for [^\n]*\n```\n(.*?)\n```", out, re.S)
    failing = [t for t in tests if "/// Check for `cover`" not in t
               and "`%s`" % full_name in t]
    if not failing:
        return None
    return "\n\n".join(failing[:MAX_TESTS_PER_HARNESS])


def _playback_all(names, crate_dir, target_dir, features, timeout, jobs):
    """{name: text}. concrete playback cannot be combined with -j, and costs ~4x the plain
    run, so: the first harness alone (it also (re)builds if needed), then the others as
    parallel processes (their cargo build step is a no-op; cbmc runs outside the lock)."""
    from concurrent.futures import ThreadPoolExecutor
    res = {}
    if not names:
        return res

    def one(n):
        try:
            return n, _playback(n, crate_dir, target_dir, features, timeout)
        except Exception as e:          # never let diagnostics mask the verdict
            return n, "playback failed: %r" % (e,)

    n, t = one(names[0])
    res[n] = t
    if len(names) > 1:
        with ThreadPoolExecutor(max_workers=max(1, jobs)) as ex:
            for n, t in ex.map(one, names[1:]):
                res[n] = t
    return res


# ----------------------------------------------------------------------------------------
# main entry point
# ----------------------------------------------------------------------------------------

def run(harness_prefixes, tier="quick", crate_dir=KANI_DIR, repo_dir=REPO_DIR,
        target_dir=TARGET_DIR, jobs=None, playback=True):
    """Run the selected harnesses; see the module doc for the result format."""
    t_start = time.time()
    if tier not in TIERS:
        raise ValueError("tier must be one of %s" % sorted(TIERS))
    cfg = TIERS[tier]
    features = list(cfg["features"])
    per_timeout = cfg["timeout"]
    result = {"tier": tier, "harnesses": [], "wall_s": 0.0, "ok": False,
              "timeout_s": per_timeout, "features": features, "crate_dir": crate_dir}

    # 1. lock file of the crate under verification (it may have changed)
    shutil.copyfile(os.path.join(repo_dir, "Cargo.lock"),
                    os.path.join(crate_dir, "Cargo.lock"))

    # 2. selection
    prefixes = [_normalise_prefix(p) for p in harness_prefixes]
    selected = []
    for module, name, unwind in _list_harnesses(crate_dir, features):
        if not ALLOWED_NAME.match(name):
            continue
        if any(name.startswith(p) for p in prefixes):
            selected.append((module + "::" + name, unwind))
    result["selected"] = [n for n, _ in selected]
    if not selected:
        result["error"] = "no harness matches %r" % (harness_prefixes,)
        result["wall_s"] = round(time.time() - t_start, 2)
        return result

    # 3. one cargo-kani process: build once, verify in parallel, one result file each
    _prune_target(target_dir)
    os.makedirs(target_dir, exist_ok=True)
    out_dir = os.path.join(target_dir, "result_output_dir")
    shutil.rmtree(out_dir, ignore_errors=True)
    if jobs is None:
        jobs = max(1, min(len(selected), (os.cpu_count() or 4) - 2, 14))
    cmd = ["cargo", "kani", "--target-dir", target_dir, "-j", str(jobs),
           "--output-format", "terse", "--output-into-files",
           "-Z", "unstable-options", "--harness-timeout", "%ds" % per_timeout, "--exact"]
    if features:
        cmd += ["--features", ",".join(features)]
    for full, _ in selected:
        cmd += ["--harness", full]
    rounds = -(-len(selected) // jobs)
    overall = BUILD_ALLOWANCE_S + rounds * (per_timeout + 30)
    rc, out, secs = _run_proc(cmd, crate_dir, overall)
    out = _strip_noise(out)
    result["cargo_kani_rc"] = rc
    result["cargo_kani_s"] = round(secs, 2)
    result["jobs"] = jobs
    build_failed = ("error: could not compile" in out or "error[E" in out
                    or "Failed to compile" in out or "Failed to execute cargo" in out)
    if build_failed or rc is None:
        result["log_tail"] = out[-6000:]
    if build_failed:
        result["error"] = "build failed"
    elif rc is None:
        result["error"] = "cargo kani exceeded the overall limit of %d s" % overall

    # 4. per-harness results
    for full, unwind in selected:
        h = {"name": full, "status": "error", "seconds": None, "checks_total": 0,
             "checks_failed": 0, "covers_satisfied": 0, "covers_total": 0,
             "unwind": unwind, "failed_checks": []}
        path = os.path.join(out_dir, full)
        if not os.path.exists(path):
            h["failed_checks"].append(
                "no result file (build failure, crash, or run aborted)")
        else:
            text = open(path, errors="replace").read()
            p = _parse_result(text)
            h["status"] = _classify(p)
            for k in ("checks_total", "checks_failed", "covers_satisfied",
                      "covers_total", "failed_checks"):
                h[k] = p[k]
            h["seconds"] = p["seconds"]
            if h["status"] == "timeout":
                h["seconds"] = float(per_timeout)
                h["failed_checks"].append("CBMC timed out after %d s" % per_timeout)
            elif h["status"] == "error":
                tail = [l for l in text.strip().split("\n") if l.strip()][-6:]
                h["failed_checks"].append("no verdict / CBMC failed (crash or memory cap "
                                          "%d GB): %s" % (MEM_CAP_BYTES >> 30,
                                                          " | ".join(tail)))
            if h["status"] == "failure" and p["verdict"] == "SUCCESSFUL" \
                    and p["covers_total"] == 0:
                h["failed_checks"].append("harness has no kani::cover! reachability "
                                          "witness")
            if any("unwinding assertion" in d for d in h["failed_checks"]):
                h["failed_checks"].append(
                    "note: unwinding assertion failed, the unwind bound %r is too small "
                    "(not a property violation by itself)" % (unwind,))
        result["harnesses"].append(h)

    # 5. concrete values for failures (bounded: at most MAX_PLAYBACK harnesses)
    if playback:
        failed = [h for h in result["harnesses"]
                  if h["status"] == "failure" and h["checks_failed"] > 0]
        limit = MAX_PLAYBACK if playback is True else int(playback)
        todo = [h["name"] for h in failed[:limit]]
        cex = _playback_all(todo, crate_dir, target_dir, features, per_timeout + 120, jobs)
        for h in failed:
            if cex.get(h["name"]):
                h["counterexample"] = cex[h["name"]]
        if len(failed) > limit:
            result["playback_skipped"] = [h["name"] for h in failed[limit:]]

    result["ok"] = ("error" not in result
                    and all(h["status"] == "success" for h in result["harnesses"]))
    result["wall_s"] = round(time.time() - t_start, 2)
    return result


# ----------------------------------------------------------------------------------------
# CLI
# ----------------------------------------------------------------------------------------

def _main(argv):
    args = [a for a in argv if not a.startswith("--")]
    flags = [a for a in argv if a.startswith("--")]
    tier = "quick"
    prefixes = []
    for a in args:
        if a in TIERS:
            tier = a
        else:
            prefixes.append(a)
    if not prefixes:
        prefixes = ["c17_", "c19_"]
    kw = {}
    for f in flags:
        if f.startswith("--crate-dir="):
            kw["crate_dir"] = f.split("=", 1)[1]
        elif f.startswith("--repo-dir="):
            kw["repo_dir"] = f.split("=", 1)[1]
        elif f.startswith("--target-dir="):
            kw["target_dir"] = f.split("=", 1)[1]
        elif f.startswith("--jobs="):
            kw["jobs"] = int(f.split("=", 1)[1])
        elif f == "--no-playback":
            kw["playback"] = False
        elif f.startswith("--playback="):
            kw["playback"] = int(f.split("=", 1)[1])
    res = run(prefixes, tier, **kw)
    if "--json" in flags:
        json.dump(res, sys.stdout, indent=1)
        print()
    else:
        for h in res["harnesses"]:
            print("%-8s %7s s  checks %4d/%-4d failed %-3d covers %d/%d  unwind %-4s %s" % (
                h["status"], "%.2f" % h["seconds"] if h["seconds"] is not None else "-",
                h["checks_total"] - h["checks_failed"], h["checks_total"],
                h["checks_failed"], h["covers_satisfied"], h["covers_total"],
                h["unwind"], h["name"]))
            for d in h["failed_checks"]:
                print("           - " + d)
            if "counterexample" in h:
                print("           " + h["counterexample"].replace("\n", "\n           "))
        if "error" in res:
            print("ERROR: " + res["error"])
            if "log_tail" in res:
                print(res["log_tail"])
        n_ok = sum(1 for h in res["harnesses"] if h["status"] == "success")
        print("%s tier %s: %d/%d harnesses successful, wall %.1f s (cargo kani %.1f s, -j %s)"
              % ("OK" if res["ok"] else "NOT OK", res["tier"], n_ok, len(res["harnesses"]),
                 res["wall_s"], res.get("cargo_kani_s", 0.0), res.get("jobs")))
    return 0 if res["ok"] else 1


if __name__ == "__main__":
    sys.exit(_main(sys.argv[1:]))
