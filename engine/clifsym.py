"""clifsym -- symbolic execution (z3) of the Cranelift IR text that src/cranelift.rs builds (hook H2).
What is checked is rbpf's translation eBPF -> CLIF; Cranelift's own lowering, register allocation and ABI are trusted.
Unknown opcodes / syntax raise Unparsable (exit 2 in the calling check, never a verdict)."""
import re
from z3 import (BitVec, BitVecVal, BoolVal, If, And, Or, Not, Select, Store, Extract, Concat, ZeroExt, SignExt, LShR, UDiv, URem,
                ULT, ULE, UGT, UGE, simplify, is_true, is_false, is_bv_value, Solver, unsat)

TYW = {'i8': 8, 'i16': 16, 'i32': 32, 'i64': 64}
FLAGS = {'little', 'big', 'notrap', 'aligned', 'readonly', 'can_move', 'heap', 'table', 'vmctx', 'checked'}


class Unparsable(Exception):
    pass


class Inst:
    __slots__ = ('res', 'op', 'ty', 'args', 'loc', 'raw')


class Func:
    def __init__(self): self.blocks = {}; self.order = []; self.alias = {}; self.slots = {}; self.fns = {}; self.entry = None


def parse(text):
    F = Func(); cur = None
    for raw in text.split('\n'):
        line = raw.split(';')[0].rstrip()
        s = line.strip()
        if not s or s == '}' or s.startswith('function '): continue
        m = re.match(r'(ss\d+) = explicit_slot (\d+)', s)
        if m: F.slots[m.group(1)] = int(m.group(2)); continue
        if re.match(r'sig\d+ = ', s): continue
        m = re.match(r'(fn\d+) = (.+)', s)
        if m: F.fns[m.group(1)] = m.group(2); continue
        loc = None
        m = re.match(r'@([0-9a-f]+)\s+(.*)', s)
        if m: loc = int(m.group(1), 16); s = m.group(2)
        m = re.match(r'(block\d+)(?:\((.*)\))?:$', s)
        if m:
            params = []
            if m.group(2):
                for p in m.group(2).split(','):
                    v, t = p.strip().split(':'); params.append((v.strip(), t.strip()))
            cur = dict(name=m.group(1), params=params, insts=[]); F.blocks[m.group(1)] = cur; F.order.append(m.group(1))
            if F.entry is None: F.entry = m.group(1)
            continue
        m = re.match(r'(v\d+) -> (v\d+)$', s)
        if m: F.alias[m.group(1)] = m.group(2); continue
        if cur is None: raise Unparsable('instruction outside a block: ' + s)
        I = Inst(); I.loc = loc; I.raw = s; I.res = None
        m = re.match(r'(v\d+) = (.*)', s)
        if m: I.res = m.group(1); s = m.group(2)
        m = re.match(r'([a-z_0-9]+)(?:\.([a-z0-9]+))?\s*(.*)', s)
        if not m: raise Unparsable('instruction: ' + raw)
        I.op, I.ty, I.args = m.group(1), m.group(2), m.group(3).strip()
        cur['insts'].append(I)
    return F


class CState:
    def __init__(self): self.v = {}; self.mem = None; self.pc = []; self.log = []; self.events = []; self.block = None; self.idx = 0; self.steps = 0; self.locs = []; self.guard = None
    def fork(self):
        s = CState(); s.v = dict(self.v); s.mem = self.mem; s.pc = list(self.pc); s.log = list(self.log); s.events = list(self.events)
        s.block = self.block; s.idx = self.idx; s.steps = self.steps; s.locs = list(self.locs)
        return s


class Clif:
    def __init__(self, text, timeout_ms=20000):
        self.F = parse(text); self.solver = Solver(); self.solver.set('timeout', timeout_ms)
        self.slot_base = {}; self.hcall = None; self.helper_addr = None; self.fn_key = {}; self.max_steps = 200000
        self.ops_seen = set(); self.fresh = 0
    def feasible(self, st, c):
        c = simplify(c)
        if is_true(c): return True
        if is_false(c): return False
        self.solver.push(); self.solver.add(*st.pc); self.solver.add(c); r = self.solver.check(); self.solver.pop()
        return r != unsat
    def val(self, st, name):
        name = name.strip()
        seen = 0
        while name in self.F.alias:
            name = self.F.alias[name]; seen += 1
            if seen > 10000: raise Unparsable('alias cycle')
        if name not in st.v: raise Unparsable(f'use of undefined value {name}')
        return st.v[name]
    def addr_operand(self, st, tok):
        m = re.fullmatch(r'(v\d+)([+-](?:0x[0-9a-fA-F]+|\d+))?', tok.strip().replace('_', ''))      # Cranelift groups long hex offsets as 0x7fff_ffff
        if not m: raise Unparsable('address operand ' + tok)
        a = self.val(st, m.group(1))
        return a + BitVecVal(int(m.group(2), 0), 64) if m.group(2) else a
    def load(self, st, addr, n):
        bs = [Select(st.mem, addr + i) for i in range(n)]
        return bs[0] if n == 1 else simplify(Concat(*reversed(bs)))
    def store(self, st, addr, val, n):
        for i in range(n): st.mem = Store(st.mem, addr + i, Extract(8 * i + 7, 8 * i, val))
    def branch_args(self, st, tok):
        m = re.fullmatch(r'(block\d+)(?:\((.*)\))?', tok.strip())
        if not m: raise Unparsable('branch target ' + tok)
        args = [self.val(st, a) for a in m.group(2).split(',')] if m.group(2) else []
        return m.group(1), args
    def enter(self, st, bname, args):
        b = self.F.blocks[bname]
        if len(args) != len(b['params']): raise Unparsable(f'{bname}: {len(args)} args for {len(b["params"])} params')
        for (v, t), a in zip(b['params'], args): st.v[v] = a
        st.block = bname; st.idx = 0
    def split_top(self, s):
        out = []; d = 0; cur = ''
        for ch in s:
            if ch == '(': d += 1
            if ch == ')': d -= 1
            if ch == ',' and d == 0: out.append(cur.strip()); cur = ''
            else: cur += ch
        if cur.strip(): out.append(cur.strip())
        return out
    def run(self, st):
        """returns finished states: st.block = ('return', value) | ('trap', code)"""
        done = []; work = [st]
        while work:
            s = work.pop()
            while True:
                b = self.F.blocks[s.block]
                if s.idx >= len(b['insts']): raise Unparsable(f'{s.block} falls off its end')
                I = b['insts'][s.idx]; s.idx += 1; s.steps += 1; self.ops_seen.add(I.op)
                if s.steps > self.max_steps: raise Unparsable('step budget exceeded')
                if I.loc is not None and (not s.locs or s.locs[-1] != I.loc): s.locs.append(I.loc)
                r = self.exec(s, I)
                if r is None: continue
                if r == 'done': done.append(s); break
                if r == 'dead': break
                work.extend(r[1:]); s = r[0]
        return done
    def exec(self, st, I):
        op = I.op; w = TYW.get(I.ty) if I.ty else None
        A = self.split_top(I.args)
        V = lambda i: self.val(st, A[i])
        def setr(t): st.v[I.res] = t
        if op == 'iconst':
            setr(BitVecVal(int(A[0], 0), w)); return
        if op in ('iadd', 'isub', 'imul', 'band', 'bor', 'bxor', 'udiv', 'urem', 'ishl', 'ushr', 'sshr'):
            a, b = V(0), V(1)
            if op in ('ishl', 'ushr', 'sshr'):
                wa = a.size()
                if b.size() > wa: b = Extract(wa - 1, 0, b)
                elif b.size() < wa: b = ZeroExt(wa - b.size(), b)
                b = b & (wa - 1)                       # CLIF shifts take the amount modulo the bit width
                setr({'ishl': a << b, 'ushr': LShR(a, b), 'sshr': a >> b}[op]); return
            if a.size() != b.size(): raise Unparsable(f'{op}: operand widths differ in {I.raw}')
            if op in ('udiv', 'urem'):
                d_ = simplify(b)
                if d_.decl().name() == 'if' and (is_bv_value(d_.arg(1)) or is_bv_value(d_.arg(2))):
                    # divisor = select(zero-test, constant, register): split the path so that the division keeps the
                    # register itself as divisor (same term as the interpreter's -- z3 does not relate two bit-blasted dividers)
                    c_ = d_.arg(0); out = []
                    for cond, dv in ((c_, d_.arg(1)), (Not(c_), d_.arg(2))):
                        if not self.feasible(st, cond): continue
                        s2 = st.fork(); s2.pc.append(simplify(cond))
                        if is_bv_value(dv) and dv.as_long() == 0: s2.block = ('trap', 'int_divz'); self.traps.append(s2); continue
                        if not is_bv_value(dv):
                            if self.feasible(s2, dv == 0):
                                s3 = s2.fork(); s3.pc.append(simplify(dv == 0)); s3.block = ('trap', 'int_divz'); self.traps.append(s3)
                            if not self.feasible(s2, dv != 0): continue
                            s2.pc.append(simplify(dv != 0))
                        s2.v[I.res] = UDiv(a, dv) if op == 'udiv' else URem(a, dv); out.append(s2)
                    return out if out else 'dead'
                if self.feasible(st, b == 0):
                    s2 = st.fork(); s2.pc.append(simplify(b == 0)); s2.block = ('trap', 'int_divz'); self.traps.append(s2)
                if not self.feasible(st, b != 0): return 'dead'
                st.pc.append(simplify(b != 0))
            setr({'iadd': lambda: a + b, 'isub': lambda: a - b, 'imul': lambda: a * b, 'band': lambda: a & b, 'bor': lambda: a | b, 'bxor': lambda: a ^ b,
                  'udiv': lambda: UDiv(a, b), 'urem': lambda: URem(a, b)}[op]()); return
        if op == 'ineg': setr(-V(0)); return
        if op == 'bswap':
            a = V(0); n = a.size() // 8; setr(Concat(*[Extract(8 * k + 7, 8 * k, a) for k in range(n)]) if n > 1 else a); return
        if op == 'ireduce': setr(Extract(w - 1, 0, V(0))); return
        if op == 'uextend': a = V(0); setr(ZeroExt(w - a.size(), a)); return
        if op == 'sextend': a = V(0); setr(SignExt(w - a.size(), a)); return
        if op in ('icmp', 'icmp_imm'):
            cc = A[0].split()[0]; rest = A[0].split(None, 1)[1] if len(A[0].split()) > 1 else None
            a = self.val(st, rest)
            b = self.val(st, A[1]) if op == 'icmp' else BitVecVal(int(A[1], 0), a.size())
            c = {'eq': a == b, 'ne': a != b, 'ugt': UGT(a, b), 'uge': UGE(a, b), 'ult': ULT(a, b), 'ule': ULE(a, b),
                 'sgt': a > b, 'sge': a >= b, 'slt': a < b, 'sle': a <= b}.get(cc)
            if c is None: raise Unparsable('condition code ' + cc)
            setr(If(c, BitVecVal(1, 8), BitVecVal(0, 8))); return
        if op == 'select':
            c = V(0); nz = simplify(c != 0)
            # resolve the select under the path condition when only one side is possible (keeps division terms aligned
            # with the interpreter, which branches on the same zero tests)
            if is_true(nz) or (not is_false(nz) and not self.feasible(st, Not(nz))): setr(V(1)); return
            if is_false(nz) or not self.feasible(st, nz): setr(V(2)); return
            setr(If(nz, V(1), V(2))); return
        if op == 'stack_addr':
            m = re.fullmatch(r'(ss\d+)([+-]\d+)?', A[0])
            if not m or m.group(1) not in self.slot_base: raise Unparsable('stack_addr ' + I.args)
            setr(self.slot_base[m.group(1)] + BitVecVal(int(m.group(2) or 0), 64)); return
        if op == 'load':
            toks = [t for t in I.args.replace(',', ' ').split() if t not in FLAGS]
            addr = self.addr_operand(st, toks[0]); n = w // 8
            st.log.append(('read', addr, n, I.loc)); setr(self.load(st, addr, n)); return
        if op == 'store':
            toks = [t for t in I.args.replace(',', ' ').split() if t not in FLAGS]
            val = self.val(st, toks[0]); addr = self.addr_operand(st, toks[1]); n = val.size() // 8
            st.log.append(('write', addr, n, I.loc)); self.store(st, addr, val, n); return
        if op == 'atomic_rmw':
            toks = [t for t in I.args.replace(',', ' ').split() if t not in FLAGS]
            if toks[0] != 'add': raise Unparsable('atomic_rmw ' + toks[0])
            addr = self.val(st, toks[1]); val = self.val(st, toks[2]); n = w // 8
            if val.size() != w: raise Unparsable('atomic_rmw operand width')
            old = self.load(st, addr, n); st.log.append(('atomic-read', addr, n, I.loc)); st.log.append(('atomic-write', addr, n, I.loc))
            self.store(st, addr, old + val, n); st.events.append(('atomic_rmw', addr, w, val)); setr(old); return
        if op == 'trapz' or op == 'trapnz':
            c = V(0); z = (c == 0) if op == 'trapz' else (c != 0)
            if self.feasible(st, z):
                s2 = st.fork(); s2.pc.append(simplify(z)); s2.guard = self.peek_access(st.fork()); s2.block = ('trap', A[1], I.loc); self.traps.append(s2)
            if not self.feasible(st, Not(z)): return 'dead'
            st.pc.append(simplify(Not(z))); return
        if op == 'call':
            m = re.fullmatch(r'(fn\d+)\((.*)\)', I.args)
            if not m: raise Unparsable('call ' + I.args)
            args = [self.val(st, a) for a in self.split_top(m.group(2))]
            key = self.fn_key.get(m.group(1))
            if key is None: raise Unparsable('call to unknown function ref ' + m.group(1))
            tgt = self.helper_addr(BitVecVal(key, 32))
            st.events.append(('hcall', BitVecVal(key, 32), args, tgt))
            setr(self.hcall(tgt, *args)); return
        if op == 'jump':
            b, args = self.branch_args(st, I.args); self.enter(st, b, args); return
        if op == 'brif':
            c = V(0); nz = c != 0
            tb, ta = self.branch_args(st, A[1]); fb, fa = self.branch_args(st, A[2])
            t_ok = self.feasible(st, nz); f_ok = self.feasible(st, Not(nz))
            if t_ok and f_ok:
                s2 = st.fork(); s2.pc.append(simplify(nz)); self.enter(s2, tb, ta)
                st.pc.append(simplify(Not(nz))); self.enter(st, fb, fa); return [st, s2]
            if t_ok: st.pc.append(simplify(nz)); self.enter(st, tb, ta); return
            if f_ok: st.pc.append(simplify(Not(nz))); self.enter(st, fb, fa); return
            return 'dead'
        if op == 'return':
            st.block = ('return', self.val(st, A[0]) if A else None); return 'done'
        raise Unparsable(f'no semantics for CLIF opcode {op} ({I.raw})')
    def peek_access(self, st):
        """the memory access a bounds-check trap guards: execute past the trap (same block) until the next access"""
        n0 = len(st.log); b = self.F.blocks[st.block]
        while st.idx < len(b['insts']):
            I = b['insts'][st.idx]; st.idx += 1
            if I.op in ('trapz', 'trapnz', 'brif', 'jump', 'return', 'call', 'udiv', 'urem'): return None
            self.exec(st, I)
            if len(st.log) > n0: return st.log[n0]
        return None
    def execute(self, mem, params, pc):
        """run from the entry block; returns (returning states, trapping states)"""
        st = CState(); st.mem = mem; st.pc = list(pc); self.traps = []
        self.enter(st, self.F.entry, params)
        rets = self.run(st)
        return rets, self.traps
