//! C17, first half: `Insn::to_array`, `Insn::to_vec`, `get_insn`, `to_insn_vec`.
//!
//! "Decoding an 8-byte slot into (opcode, dst, src, offset, immediate) and encoding it back is
//! the identity in both directions for every value of every field (register numbers 0-15),
//! through both the array and the vector encoder and at every instruction index of a program."

use rbpf::ebpf::{self, Insn};

/// Number of 8-byte slots of the symbolic program used by the index harnesses.
#[cfg(not(feature = "thorough"))]
const SLOTS: usize = 4;
#[cfg(feature = "thorough")]
const SLOTS: usize = 8;
const PROG_BYTES: usize = SLOTS * ebpf::INSN_SIZE;

/// A fully symbolic instruction with 4-bit register fields.
/// Bounds: opc: all u8, dst in 0..=15, src in 0..=15, off: all i16, imm: all i32.
fn any_insn() -> Insn {
    let dst: u8 = kani::any();
    let src: u8 = kani::any();
    kani::assume(dst < 16);
    kani::assume(src < 16);
    Insn {
        opc: kani::any(),
        dst,
        src,
        off: kani::any(),
        imm: kani::any(),
    }
}

/// Independent reference encoding (little endian fields, src in the high nibble), written
/// with `to_le_bytes` instead of the shifts and masks used by the crate.
fn ref_encode(opc: u8, dst: u8, src: u8, off: i16, imm: i32) -> [u8; 8] {
    let o = off.to_le_bytes();
    let i = imm.to_le_bytes();
    [opc, src * 16 + dst, o[0], o[1], i[0], i[1], i[2], i[3]]
}

/// encode -> decode is the identity: `get_insn(&insn.to_array(), 0) == insn`.
/// Bounds: none (all opc, dst<16, src<16, all off, all imm).
#[kani::proof]
fn c17_array_encode_then_decode() {
    let insn = any_insn();
    let bytes = insn.to_array();
    let back = ebpf::get_insn(&bytes, 0);
    assert!(back.opc == insn.opc);
    assert!(back.dst == insn.dst);
    assert!(back.src == insn.src);
    assert!(back.off == insn.off);
    assert!(back.imm == insn.imm);
    // the derived PartialEq as well
    assert!(back == insn);
    // and the bytes are the architected layout
    let want = ref_encode(insn.opc, insn.dst, insn.src, insn.off, insn.imm);
    let mut i = 0;
    while i < 8 {
        assert!(bytes[i] == want[i]);
        i += 1;
    }
    kani::cover!(insn.src == 15 && insn.dst == 15 && insn.off < 0 && insn.imm < 0);
    kani::cover!(insn.opc == 0xb7 && insn.off == 0x3456 && insn.imm == 0x789abcde);
}

/// decode -> encode is the identity: `get_insn(bytes, 0).to_array() == bytes`.
/// Bounds: none (all 2^64 byte arrays).
#[kani::proof]
fn c17_array_decode_then_encode() {
    let bytes: [u8; 8] = kani::any();
    let insn = ebpf::get_insn(&bytes, 0);
    assert!(insn.dst < 16 && insn.src < 16);
    let back = insn.to_array();
    let mut i = 0;
    while i < 8 {
        assert!(back[i] == bytes[i]);
        i += 1;
    }
    // decoded fields are the architected ones
    assert!(insn.opc == bytes[0]);
    assert!(insn.dst == bytes[1] % 16);
    assert!(insn.src == bytes[1] / 16);
    assert!(insn.off == i16::from_le_bytes([bytes[2], bytes[3]]));
    assert!(insn.imm == i32::from_le_bytes([bytes[4], bytes[5], bytes[6], bytes[7]]));
    kani::cover!(bytes[1] == 0xff && bytes[3] >= 0x80 && bytes[7] >= 0x80);
}

/// The vector encoder agrees with the array encoder byte for byte, and has length 8.
/// Bounds: none (all opc, dst<16, src<16, all off, all imm).
#[kani::proof]
fn c17_vec_equals_array() {
    let insn = any_insn();
    let a = insn.to_array();
    let v = insn.to_vec();
    assert!(v.len() == ebpf::INSN_SIZE);
    let mut i = 0;
    while i < 8 {
        assert!(v[i] == a[i]);
        i += 1;
    }
    kani::cover!(v.len() == 8 && insn.src == 15 && insn.dst == 15 && insn.imm < 0);
}

/// Vector encoder round trip in both directions (decode(to_vec(insn)) == insn and
/// to_vec(decode(bytes)) == bytes).
/// Bounds: none.
#[kani::proof]
fn c17_vec_roundtrip() {
    let insn = any_insn();
    let v = insn.to_vec();
    let back = ebpf::get_insn(&v, 0);
    assert!(back.opc == insn.opc);
    assert!(back.dst == insn.dst);
    assert!(back.src == insn.src);
    assert!(back.off == insn.off);
    assert!(back.imm == insn.imm);

    let bytes: [u8; 8] = kani::any();
    let v2 = ebpf::get_insn(&bytes, 0).to_vec();
    assert!(v2.len() == 8);
    let mut i = 0;
    while i < 8 {
        assert!(v2[i] == bytes[i]);
        i += 1;
    }
    kani::cover!(insn.src == 15 && bytes[1] == 0xff && bytes[7] >= 0x80);
}

/// Round trip at every instruction index of a program:
/// `get_insn(&prog, k).to_array() == prog[8k..8k+8]` and encoding an instruction into slot k
/// and decoding slot k gives the instruction back, other slots being arbitrary.
/// Bounds: program of SLOTS (4; thorough: 8) slots, all byte values, all k < SLOTS.
#[kani::proof]
fn c17_index_roundtrip() {
    let mut prog: [u8; PROG_BYTES] = kani::any();
    let k: usize = kani::any();
    kani::assume(k < SLOTS);

    let insn = ebpf::get_insn(&prog, k);
    let back = insn.to_array();
    let mut i = 0;
    while i < 8 {
        assert!(back[i] == prog[8 * k + i]);
        i += 1;
    }

    // other direction at index k
    let ins2 = any_insn();
    let enc = ins2.to_array();
    let mut i = 0;
    while i < 8 {
        prog[8 * k + i] = enc[i];
        i += 1;
    }
    let dec = ebpf::get_insn(&prog, k);
    assert!(dec.opc == ins2.opc);
    assert!(dec.dst == ins2.dst);
    assert!(dec.src == ins2.src);
    assert!(dec.off == ins2.off);
    assert!(dec.imm == ins2.imm);

    kani::cover!(k == 0);
    kani::cover!(k == SLOTS - 1 && ins2.imm < 0);
}

/// `to_insn_vec(&prog)` has one element per slot and element k equals `get_insn(&prog, k)`.
/// Bounds: program of SLOTS (4; thorough: 8) slots, all byte values, all k < SLOTS.
#[kani::proof]
#[kani::unwind(10)]
fn c17_to_insn_vec_index() {
    let prog: [u8; PROG_BYTES] = kani::any();
    let k: usize = kani::any();
    kani::assume(k < SLOTS);

    let v = ebpf::to_insn_vec(&prog);
    assert!(v.len() == SLOTS);
    let g = ebpf::get_insn(&prog, k);
    assert!(v[k].opc == g.opc);
    assert!(v[k].dst == g.dst);
    assert!(v[k].src == g.src);
    assert!(v[k].off == g.off);
    assert!(v[k].imm == g.imm);
    assert!(v[k] == g);
    // and it re-encodes to the program bytes
    let back = v[k].to_array();
    let mut i = 0;
    while i < 8 {
        assert!(back[i] == prog[8 * k + i]);
        i += 1;
    }
    kani::cover!(k == 0);
    kani::cover!(k == SLOTS - 1 && prog[8 * k + 1] == 0xff);
}
