//! Kani proof harnesses for leaf functions of the `rbpf` crate.
//!
//! * `c17_*`: instruction encoding / decoding are inverse, all encoders agree
//!   (`ebpf::Insn::to_array`, `Insn::to_vec`, `ebpf::get_insn`, `ebpf::to_insn_vec`,
//!   `insn_builder::*`).
//! * `c19_*`: helpers `gather_bytes`, `memfrob`, `strcmp` (the other helpers of C19 are
//!   checked elsewhere).
//!
//! Everything is `#[cfg(kani)]`: a plain `cargo build` of this crate is empty.
//! The harnesses are run by `/verif/engine/kani_run.py`.
//!
//! Conventions:
//! * harness names start with the property id (`c17_`, `c19_`);
//! * each harness has at least one `kani::cover!` reachability witness placed AFTER the
//!   assertions, so a satisfied cover shows that the assertions were reached on a feasible
//!   path (the runner requires every cover to be SATISFIED);
//! * unwinding assertions stay enabled, `#[kani::unwind(n)]` is given where a loop exists;
//! * bounds are stated in a comment on each harness. The cargo feature `thorough` enlarges
//!   the bounds of the few harnesses that have any (everything else is exhaustive over the
//!   full value range of its inputs).

#![allow(clippy::all)]

#[cfg(kani)]
mod c17_codec;
#[cfg(kani)]
mod c17_builder;
#[cfg(kani)]
mod c19_helpers;
