//! C19 (partial): helpers `gather_bytes`, `memfrob`, `strcmp` of /repo/src/helpers.rs.

use rbpf::helpers;

// ---------------------------------------------------------------------------------------
// gather_bytes
// ---------------------------------------------------------------------------------------

/// `gather_bytes(a1..a5) == a1<<32 | a2<<24 | a3<<16 | a4<<8 | a5` (plain u64 shifts: the
/// bits shifted out are discarded) for all five u64, and no panic.
/// Bounds: none (5 x 64 symbolic bits).
#[kani::proof]
fn c19_gather_bytes_formula() {
    let a1: u64 = kani::any();
    let a2: u64 = kani::any();
    let a3: u64 = kani::any();
    let a4: u64 = kani::any();
    let a5: u64 = kani::any();
    let r = helpers::gather_bytes(a1, a2, a3, a4, a5);
    // constant shift amounts < 64: `<<` on u64 cannot panic and drops the high bits
    let want = (a1 << 32) | (a2 << 24) | (a3 << 16) | (a4 << 8) | a5;
    assert!(r == want);
    // the same value written with multiplications modulo 2^64
    let want2 = a1.wrapping_mul(1 << 32)
        | a2.wrapping_mul(1 << 24)
        | a3.wrapping_mul(1 << 16)
        | a4.wrapping_mul(1 << 8)
        | a5;
    assert!(r == want2);
    kani::cover!(a1 == 0x11 && a2 == 0x22 && a3 == 0x33 && a4 == 0x44 && a5 == 0x55
        && r == 0x1122334455);
    kani::cover!(a1 > u32::MAX as u64 && a2 > (1 << 40) && a5 > (1 << 63));
}

// ---------------------------------------------------------------------------------------
// memfrob
// ---------------------------------------------------------------------------------------

#[cfg(not(feature = "thorough"))]
const FROB_BUF: usize = 10;
#[cfg(not(feature = "thorough"))]
const FROB_MAX_LEN: usize = 8;
#[cfg(feature = "thorough")]
const FROB_BUF: usize = 24;
#[cfg(feature = "thorough")]
const FROB_MAX_LEN: usize = 16;

/// `memfrob(ptr, len, _, _, _)` XORs exactly the bytes ptr..ptr+len with 0x2a, touches no
/// other byte, returns 0 ("the helper returns 0 in all cases"), ignores arguments 3 to 5,
/// and applying it twice restores the buffer.
/// Bounds: buffer of FROB_BUF = 10 bytes (thorough: 24) with arbitrary contents, symbolic
/// start and len with len <= FROB_MAX_LEN = 8 (thorough: 16) and start + len <= FROB_BUF.
/// Kani's memory-safety checks are on, so any access outside the buffer would fail.
#[kani::proof]
#[cfg_attr(not(feature = "thorough"), kani::unwind(12))]
#[cfg_attr(feature = "thorough", kani::unwind(26))]
fn c19_memfrob_exact_range_and_involution() {
    let orig: [u8; FROB_BUF] = kani::any();
    let mut buf = orig;
    let start: usize = kani::any();
    let len: usize = kani::any();
    kani::assume(len <= FROB_MAX_LEN);
    kani::assume(start <= FROB_BUF);
    kani::assume(start + len <= FROB_BUF);
    let u3: u64 = kani::any();
    let u4: u64 = kani::any();
    let u5: u64 = kani::any();

    let ptr = unsafe { buf.as_mut_ptr().add(start) } as u64;
    let r = helpers::memfrob(ptr, len as u64, u3, u4, u5);
    assert!(r == 0);

    let mut i = 0;
    while i < FROB_BUF {
        if i >= start && i < start + len {
            assert!(buf[i] == orig[i] ^ 0x2a);
        } else {
            assert!(buf[i] == orig[i]);
        }
        i += 1;
    }

    // involution
    let r2 = helpers::memfrob(ptr, len as u64, kani::any(), kani::any(), kani::any());
    assert!(r2 == 0);
    let mut i = 0;
    while i < FROB_BUF {
        assert!(buf[i] == orig[i]);
        i += 1;
    }

    kani::cover!(len == FROB_MAX_LEN && start == FROB_BUF - FROB_MAX_LEN);
    kani::cover!(len == 0 && start == FROB_BUF);
    kani::cover!(len == 3 && start == 1 && orig[2] == 0x2a);
}

// ---------------------------------------------------------------------------------------
// strcmp
// ---------------------------------------------------------------------------------------

/// Buffer size of the strcmp harnesses (the last byte is forced to NUL).
#[cfg(not(feature = "thorough"))]
const STR_BUF: usize = 6;
#[cfg(feature = "thorough")]
const STR_BUF: usize = 10;

/// A symbolic NUL-terminated string buffer: arbitrary bytes (possibly with earlier NULs),
/// last byte NUL.
fn any_cstr() -> [u8; STR_BUF] {
    let mut s: [u8; STR_BUF] = kani::any();
    s[STR_BUF - 1] = 0;
    s
}

/// Index of the first position where the two C strings differ or where both end.
/// (`a[i] != b[i]`, or `a[i] == b[i] == 0`.) Always < STR_BUF because both end with NUL.
fn first_stop(a: &[u8; STR_BUF], b: &[u8; STR_BUF]) -> usize {
    let mut i = 0;
    while i < STR_BUF - 1 {
        if a[i] != b[i] || a[i] == 0 {
            return i;
        }
        i += 1;
    }
    i
}

/// Doc comment of `strcmp`: "C-like `strcmp`, return 0 if the strings are equal, and a
/// non-null value otherwise." Precisely: 0 exactly for equal NUL-terminated strings, else the
/// absolute difference of the first pair of differing bytes. Arguments 3 to 5 are ignored.
/// No panic, and (Kani memory-safety checks) no read beyond the terminating NUL of the
/// string that ends first.
/// Bounds: two buffers of STR_BUF = 6 bytes (thorough: 10), arbitrary contents, last byte NUL
/// (so strings of length 0..=5, resp. 0..=9, including embedded earlier NULs).
#[kani::proof]
#[cfg_attr(not(feature = "thorough"), kani::unwind(8))]
#[cfg_attr(feature = "thorough", kani::unwind(12))]
fn c19_strcmp_value() {
    let a = any_cstr();
    let b = any_cstr();
    let r = helpers::strcmp(
        a.as_ptr() as u64,
        b.as_ptr() as u64,
        kani::any(),
        kani::any(),
        kani::any(),
    );

    let i = first_stop(&a, &b);
    // the C strings are equal iff they stop at a common NUL
    let equal = a[i] == b[i];
    let absdiff = if a[i] >= b[i] { a[i] - b[i] } else { b[i] - a[i] };

    assert!((r == 0) == equal);
    assert!(r == absdiff as u64);
    if !equal {
        assert!(r != 0 && r <= 255);
    }

    kani::cover!(equal && i == STR_BUF - 1);
    kani::cover!(equal && i == 0);
    kani::cover!(!equal && i == STR_BUF - 2 && a[i] == 0);
    kani::cover!(!equal && a[i] < b[i] && r == 255);
    kani::cover!(!equal && a[i] > b[i] && i == 2);
}

/// Same string object on both sides: always 0 (the doc example `strcmp(foo, foo) == 0`).
/// Bounds: one buffer of STR_BUF bytes, last byte NUL.
#[kani::proof]
#[cfg_attr(not(feature = "thorough"), kani::unwind(8))]
#[cfg_attr(feature = "thorough", kani::unwind(12))]
fn c19_strcmp_reflexive() {
    let a = any_cstr();
    let p = a.as_ptr() as u64;
    assert!(helpers::strcmp(p, p, 0, 0, 0) == 0);
    kani::cover!(a[0] != 0 && a[STR_BUF - 2] != 0);
}

/// All-ones when either pointer is null; the other pointer is then not dereferenced
/// (it is an arbitrary, possibly invalid, address here).
/// Bounds: none (other pointer: any u64; unused arguments: any u64).
#[kani::proof]
fn c19_strcmp_null() {
    let other: u64 = kani::any();
    let u3: u64 = kani::any();
    let u4: u64 = kani::any();
    let u5: u64 = kani::any();
    assert!(helpers::strcmp(0, other, u3, u4, u5) == u64::MAX);
    assert!(helpers::strcmp(other, 0, u3, u4, u5) == u64::MAX);
    assert!(helpers::strcmp(0, 0, u3, u4, u5) == u64::MAX);
    kani::cover!(other != 0);
    kani::cover!(other == 0);
}
