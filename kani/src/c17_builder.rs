//! C17, second half: "the instruction-builder API emits, for every instruction it can build,
//! the same bytes as the instruction encoder".
//!
//! For every constructor of `insn_builder::BpfCode` the instruction is built with symbolic
//! dst / src / off / imm, pushed, and the bytes returned by `BpfCode::into_bytes()` are
//! compared with `ebpf::Insn { opc: EXPECTED, dst, src, off, imm }.to_array()`.
//! EXPECTED is the named opcode constant of `rbpf::ebpf` that the mnemonic denotes, chosen by
//! the explicit tables below (which never call the builder's `opt_code_byte`).
//! The few builder instructions for which `rbpf::ebpf` has no named constant
//! (`load(Byte|HalfWord|Word)`, `jump_conditional(Cond::Abs, Source::Reg)`) are compared with
//! the class | mode | size (resp. class | source | op) composition of the basic `BPF_*`
//! constants, as documented in the layout comments of ebpf.rs.
//!
//! Every `Instruction` has all four setters (`set_dst`, `set_src`, `set_off`, `set_imm`) and
//! none of the constructors zeroes or forces a field afterwards, so the expected instruction
//! carries all four symbolic fields. Each setter is applied under a symbolic flag; when the
//! flag is false the field must have its constructor default, 0.
//!
//! Bounds (all harnesses here): none. dst: all u8, src: all u8 (the builder accepts any u8 as
//! register number, so "every instruction it can build" includes numbers above 15; builder
//! and encoder must then still agree on the packed `src << 4 | dst` byte; the 4-bit numbers
//! 0..=15 of the property text are a subset), off: all i16, imm: all i32, all enum members.

use rbpf::ebpf::{self, Insn};
use rbpf::insn_builder::{Arch, BpfCode, Cond, Endian, Instruction, IntoBytes, MemSize, Source};

/// Symbolic operand fields and "setter is called" flags.
struct Fields {
    set_dst: bool,
    set_src: bool,
    set_off: bool,
    set_imm: bool,
    dst: u8,
    src: u8,
    off: i16,
    imm: i32,
}

impl Fields {
    fn any() -> Fields {
        let dst: u8 = kani::any();
        let src: u8 = kani::any();
        Fields {
            set_dst: kani::any(),
            set_src: kani::any(),
            set_off: kani::any(),
            set_imm: kani::any(),
            dst,
            src,
            off: kani::any(),
            imm: kani::any(),
        }
    }

    /// Apply the selected setters through the `Instruction` trait.
    fn apply<I: Instruction>(&self, mut i: I) -> I {
        if self.set_dst {
            i = i.set_dst(self.dst);
        }
        if self.set_src {
            i = i.set_src(self.src);
        }
        if self.set_off {
            i = i.set_off(self.off);
        }
        if self.set_imm {
            i = i.set_imm(self.imm);
        }
        i
    }

    /// The instruction the encoder must be given: unset fields are 0.
    fn expected(&self, opc: u8) -> Insn {
        Insn {
            opc,
            dst: if self.set_dst { self.dst } else { 0 },
            src: if self.set_src { self.src } else { 0 },
            off: if self.set_off { self.off } else { 0 },
            imm: if self.set_imm { self.imm } else { 0 },
        }
    }

    fn all_set(&self) -> bool {
        self.set_dst && self.set_src && self.set_off && self.set_imm
    }
}

/// The program must consist of exactly the 8 bytes `want.to_array()`.
fn check_program(code: &BpfCode, want: &Insn) {
    let got: &[u8] = code.into_bytes();
    let want = want.to_array();
    assert!(got.len() == ebpf::INSN_SIZE);
    assert!(got[0] == want[0]);
    assert!(got[1] == want[1]);
    assert!(got[2] == want[2]);
    assert!(got[3] == want[3]);
    assert!(got[4] == want[4]);
    assert!(got[5] == want[5]);
    assert!(got[6] == want[6]);
    assert!(got[7] == want[7]);
}

fn any_source() -> (Source, bool) {
    let is_reg: bool = kani::any();
    (if is_reg { Source::Reg } else { Source::Imm }, is_reg)
}

fn any_arch() -> (Arch, bool) {
    let is64: bool = kani::any();
    (if is64 { Arch::X64 } else { Arch::X32 }, is64)
}

/// index: 0 Byte, 1 HalfWord, 2 Word, 3 DoubleWord
fn any_mem_size() -> (MemSize, u8) {
    let s: u8 = kani::any();
    kani::assume(s < 4);
    let m = match s {
        0 => MemSize::Byte,
        1 => MemSize::HalfWord,
        2 => MemSize::Word,
        _ => MemSize::DoubleWord,
    };
    (m, s)
}

// ---------------------------------------------------------------------------------------
// ALU: add sub mul div bit_or bit_and left_shift right_shift modulo bit_xor mov
//      signed_right_shift  x Source{Imm,Reg} x Arch{X32,X64};  negate x Arch
// ---------------------------------------------------------------------------------------

/// Expected opcode of ALU builder method number `op` (order of the methods in `BpfCode`).
fn alu_expected(op: u8, is_reg: bool, is64: bool) -> u8 {
    match (op, is_reg, is64) {
        (0, false, false) => ebpf::ADD32_IMM,
        (0, true, false) => ebpf::ADD32_REG,
        (0, false, true) => ebpf::ADD64_IMM,
        (0, true, true) => ebpf::ADD64_REG,
        (1, false, false) => ebpf::SUB32_IMM,
        (1, true, false) => ebpf::SUB32_REG,
        (1, false, true) => ebpf::SUB64_IMM,
        (1, true, true) => ebpf::SUB64_REG,
        (2, false, false) => ebpf::MUL32_IMM,
        (2, true, false) => ebpf::MUL32_REG,
        (2, false, true) => ebpf::MUL64_IMM,
        (2, true, true) => ebpf::MUL64_REG,
        (3, false, false) => ebpf::DIV32_IMM,
        (3, true, false) => ebpf::DIV32_REG,
        (3, false, true) => ebpf::DIV64_IMM,
        (3, true, true) => ebpf::DIV64_REG,
        (4, false, false) => ebpf::OR32_IMM,
        (4, true, false) => ebpf::OR32_REG,
        (4, false, true) => ebpf::OR64_IMM,
        (4, true, true) => ebpf::OR64_REG,
        (5, false, false) => ebpf::AND32_IMM,
        (5, true, false) => ebpf::AND32_REG,
        (5, false, true) => ebpf::AND64_IMM,
        (5, true, true) => ebpf::AND64_REG,
        (6, false, false) => ebpf::LSH32_IMM,
        (6, true, false) => ebpf::LSH32_REG,
        (6, false, true) => ebpf::LSH64_IMM,
        (6, true, true) => ebpf::LSH64_REG,
        (7, false, false) => ebpf::RSH32_IMM,
        (7, true, false) => ebpf::RSH32_REG,
        (7, false, true) => ebpf::RSH64_IMM,
        (7, true, true) => ebpf::RSH64_REG,
        (8, false, false) => ebpf::MOD32_IMM,
        (8, true, false) => ebpf::MOD32_REG,
        (8, false, true) => ebpf::MOD64_IMM,
        (8, true, true) => ebpf::MOD64_REG,
        (9, false, false) => ebpf::XOR32_IMM,
        (9, true, false) => ebpf::XOR32_REG,
        (9, false, true) => ebpf::XOR64_IMM,
        (9, true, true) => ebpf::XOR64_REG,
        (10, false, false) => ebpf::MOV32_IMM,
        (10, true, false) => ebpf::MOV32_REG,
        (10, false, true) => ebpf::MOV64_IMM,
        (10, true, true) => ebpf::MOV64_REG,
        (11, false, false) => ebpf::ARSH32_IMM,
        (11, true, false) => ebpf::ARSH32_REG,
        (11, false, true) => ebpf::ARSH64_IMM,
        (11, true, true) => ebpf::ARSH64_REG,
        _ => unreachable!(),
    }
}

/// All binary ALU builder methods x Source x Arch.
#[kani::proof]
fn c17_builder_alu() {
    let f = Fields::any();
    let op: u8 = kani::any();
    kani::assume(op < 12);
    let (source, is_reg) = any_source();
    let (arch, is64) = any_arch();

    let mut code = BpfCode::new();
    let insn = match op {
        0 => code.add(source, arch),
        1 => code.sub(source, arch),
        2 => code.mul(source, arch),
        3 => code.div(source, arch),
        4 => code.bit_or(source, arch),
        5 => code.bit_and(source, arch),
        6 => code.left_shift(source, arch),
        7 => code.right_shift(source, arch),
        8 => code.modulo(source, arch),
        9 => code.bit_xor(source, arch),
        10 => code.mov(source, arch),
        _ => code.signed_right_shift(source, arch),
    };
    f.apply(insn).push();

    let want = f.expected(alu_expected(op, is_reg, is64));
    check_program(&code, &want);

    kani::cover!(op == 0 && !is_reg && !is64 && f.all_set());
    kani::cover!(op == 11 && is_reg && is64 && f.all_set() && f.src == 15 && f.imm < 0);
    kani::cover!(op == 3 && !f.set_dst && !f.set_src && !f.set_off && !f.set_imm);
    kani::cover!(f.set_dst && f.set_src && f.dst == 0x1f && f.src == 0xff);
}

/// `negate` x Arch.
#[kani::proof]
fn c17_builder_negate() {
    let f = Fields::any();
    let (arch, is64) = any_arch();
    let mut code = BpfCode::new();
    f.apply(code.negate(arch)).push();
    let opc = if is64 { ebpf::NEG64 } else { ebpf::NEG32 };
    check_program(&code, &f.expected(opc));
    kani::cover!(is64 && f.all_set() && f.dst == 15);
    kani::cover!(!is64 && !f.set_dst);
}

// ---------------------------------------------------------------------------------------
// swap_bytes x Endian x sizes (the size is the immediate: 16, 32, 64)
// ---------------------------------------------------------------------------------------

/// `swap_bytes` x Endian, immediate any i32 (thus in particular the sizes 16, 32 and 64).
#[kani::proof]
fn c17_builder_swap_bytes() {
    let f = Fields::any();
    let big: bool = kani::any();
    let mut code = BpfCode::new();
    let endian = if big { Endian::Big } else { Endian::Little };
    f.apply(code.swap_bytes(endian)).push();
    let opc = if big { ebpf::BE } else { ebpf::LE };
    check_program(&code, &f.expected(opc));
    kani::cover!(big && f.set_imm && f.imm == 16 && f.set_dst && f.dst == 9);
    kani::cover!(!big && f.set_imm && f.imm == 32);
    kani::cover!(big && f.set_imm && f.imm == 64);
}

// ---------------------------------------------------------------------------------------
// load / load_abs / load_ind / load_x x MemSize
// ---------------------------------------------------------------------------------------

/// `load(size)`: BPF_LD | BPF_IMM | size. Only the double word form has a name in ebpf.rs
/// (`LD_DW_IMM`, "lddw"); the other sizes are compared with the composition of the basic
/// constants.
#[kani::proof]
fn c17_builder_load_imm() {
    let f = Fields::any();
    let (size, s) = any_mem_size();
    let mut code = BpfCode::new();
    f.apply(code.load(size)).push();
    let opc = match s {
        0 => ebpf::BPF_LD | ebpf::BPF_IMM | ebpf::BPF_B,
        1 => ebpf::BPF_LD | ebpf::BPF_IMM | ebpf::BPF_H,
        2 => ebpf::BPF_LD | ebpf::BPF_IMM | ebpf::BPF_W,
        _ => ebpf::LD_DW_IMM,
    };
    check_program(&code, &f.expected(opc));
    kani::cover!(s == 3 && f.all_set() && f.imm < 0);
    kani::cover!(s == 0);
}

/// `load_abs(size)`.
#[kani::proof]
fn c17_builder_load_abs() {
    let f = Fields::any();
    let (size, s) = any_mem_size();
    let mut code = BpfCode::new();
    f.apply(code.load_abs(size)).push();
    let opc = match s {
        0 => ebpf::LD_ABS_B,
        1 => ebpf::LD_ABS_H,
        2 => ebpf::LD_ABS_W,
        _ => ebpf::LD_ABS_DW,
    };
    check_program(&code, &f.expected(opc));
    kani::cover!(s == 3 && f.all_set());
    kani::cover!(s == 0 && f.set_imm && f.imm < 0);
}

/// `load_ind(size)`.
#[kani::proof]
fn c17_builder_load_ind() {
    let f = Fields::any();
    let (size, s) = any_mem_size();
    let mut code = BpfCode::new();
    f.apply(code.load_ind(size)).push();
    let opc = match s {
        0 => ebpf::LD_IND_B,
        1 => ebpf::LD_IND_H,
        2 => ebpf::LD_IND_W,
        _ => ebpf::LD_IND_DW,
    };
    check_program(&code, &f.expected(opc));
    kani::cover!(s == 1 && f.all_set() && f.src == 15);
    kani::cover!(s == 2);
}

/// `load_x(size)`.
#[kani::proof]
fn c17_builder_load_x() {
    let f = Fields::any();
    let (size, s) = any_mem_size();
    let mut code = BpfCode::new();
    f.apply(code.load_x(size)).push();
    let opc = match s {
        0 => ebpf::LD_B_REG,
        1 => ebpf::LD_H_REG,
        2 => ebpf::LD_W_REG,
        _ => ebpf::LD_DW_REG,
    };
    check_program(&code, &f.expected(opc));
    kani::cover!(s == 3 && f.all_set() && f.off < 0);
    kani::cover!(s == 0);
}

// ---------------------------------------------------------------------------------------
// store / store_x x MemSize
// ---------------------------------------------------------------------------------------

/// `store(size)` (immediate source).
#[kani::proof]
fn c17_builder_store() {
    let f = Fields::any();
    let (size, s) = any_mem_size();
    let mut code = BpfCode::new();
    f.apply(code.store(size)).push();
    let opc = match s {
        0 => ebpf::ST_B_IMM,
        1 => ebpf::ST_H_IMM,
        2 => ebpf::ST_W_IMM,
        _ => ebpf::ST_DW_IMM,
    };
    check_program(&code, &f.expected(opc));
    kani::cover!(s == 3 && f.all_set() && f.off < 0 && f.imm < 0);
    kani::cover!(s == 0);
}

/// `store_x(size)` (register source).
#[kani::proof]
fn c17_builder_store_x() {
    let f = Fields::any();
    let (size, s) = any_mem_size();
    let mut code = BpfCode::new();
    f.apply(code.store_x(size)).push();
    let opc = match s {
        0 => ebpf::ST_B_REG,
        1 => ebpf::ST_H_REG,
        2 => ebpf::ST_W_REG,
        _ => ebpf::ST_DW_REG,
    };
    check_program(&code, &f.expected(opc));
    kani::cover!(s == 2 && f.all_set() && f.src == 15 && f.dst == 15);
    kani::cover!(s == 1);
}

// ---------------------------------------------------------------------------------------
// jumps
// ---------------------------------------------------------------------------------------

/// `jump_unconditional()`.
#[kani::proof]
fn c17_builder_jump_unconditional() {
    let f = Fields::any();
    let mut code = BpfCode::new();
    f.apply(code.jump_unconditional()).push();
    check_program(&code, &f.expected(ebpf::JA));
    kani::cover!(f.all_set() && f.off < 0);
    kani::cover!(!f.set_off);
}

/// `jump_conditional(cond, source)` for the 12 members of `Cond` x Source.
/// `Cond::Abs` with `Source::Imm` is `JA`; `Cond::Abs` with `Source::Reg` has no named
/// constant and is compared with BPF_JMP | BPF_X | BPF_JA.
#[kani::proof]
fn c17_builder_jump_conditional() {
    let f = Fields::any();
    let c: u8 = kani::any();
    kani::assume(c < 12);
    let (source, is_reg) = any_source();
    let cond = match c {
        0 => Cond::Abs,
        1 => Cond::Equals,
        2 => Cond::Greater,
        3 => Cond::GreaterEquals,
        4 => Cond::Lower,
        5 => Cond::LowerEquals,
        6 => Cond::BitAnd,
        7 => Cond::NotEquals,
        8 => Cond::GreaterSigned,
        9 => Cond::GreaterEqualsSigned,
        10 => Cond::LowerSigned,
        _ => Cond::LowerEqualsSigned,
    };
    let mut code = BpfCode::new();
    f.apply(code.jump_conditional(cond, source)).push();
    let opc = match (c, is_reg) {
        (0, false) => ebpf::JA,
        (0, true) => ebpf::BPF_JMP | ebpf::BPF_X | ebpf::BPF_JA,
        (1, false) => ebpf::JEQ_IMM,
        (1, true) => ebpf::JEQ_REG,
        (2, false) => ebpf::JGT_IMM,
        (2, true) => ebpf::JGT_REG,
        (3, false) => ebpf::JGE_IMM,
        (3, true) => ebpf::JGE_REG,
        (4, false) => ebpf::JLT_IMM,
        (4, true) => ebpf::JLT_REG,
        (5, false) => ebpf::JLE_IMM,
        (5, true) => ebpf::JLE_REG,
        (6, false) => ebpf::JSET_IMM,
        (6, true) => ebpf::JSET_REG,
        (7, false) => ebpf::JNE_IMM,
        (7, true) => ebpf::JNE_REG,
        (8, false) => ebpf::JSGT_IMM,
        (8, true) => ebpf::JSGT_REG,
        (9, false) => ebpf::JSGE_IMM,
        (9, true) => ebpf::JSGE_REG,
        (10, false) => ebpf::JSLT_IMM,
        (10, true) => ebpf::JSLT_REG,
        (11, false) => ebpf::JSLE_IMM,
        (11, true) => ebpf::JSLE_REG,
        _ => unreachable!(),
    };
    check_program(&code, &f.expected(opc));
    kani::cover!(c == 1 && is_reg && f.all_set() && f.dst == 1 && f.src == 2);
    kani::cover!(c == 11 && !is_reg && f.all_set() && f.off < 0 && f.imm < 0);
    kani::cover!(c == 0 && !f.set_off);
}

// ---------------------------------------------------------------------------------------
// call, exit
// ---------------------------------------------------------------------------------------

/// `call()`.
#[kani::proof]
fn c17_builder_call() {
    let f = Fields::any();
    let mut code = BpfCode::new();
    f.apply(code.call()).push();
    check_program(&code, &f.expected(ebpf::CALL));
    kani::cover!(f.set_imm && f.imm == 0x11223344 && !f.set_dst && !f.set_src && !f.set_off);
    kani::cover!(f.all_set() && f.imm < 0);
}

/// `exit()`.
#[kani::proof]
fn c17_builder_exit() {
    let f = Fields::any();
    let mut code = BpfCode::new();
    f.apply(code.exit()).push();
    check_program(&code, &f.expected(ebpf::EXIT));
    kani::cover!(!f.set_dst && !f.set_src && !f.set_off && !f.set_imm);
    kani::cover!(f.all_set());
}

// ---------------------------------------------------------------------------------------
// position independence: the second pushed instruction lands in bytes 8..16 unchanged, and
// the per-instruction `IntoBytes for &I` (a Vec<u8>) agrees with the array encoder as well.
// ---------------------------------------------------------------------------------------

/// Two pushes: program is the concatenation of the two encodings; `(&insn).into_bytes()`
/// of a not-yet-pushed instruction equals `Insn::to_array()` too.
/// Bounds: first instruction `mov(source, arch)`, second `store_x(size)`, fields as above.
#[kani::proof]
fn c17_builder_two_pushes() {
    let f1 = Fields::any();
    let f2 = Fields::any();
    let (source, is_reg) = any_source();
    let (arch, is64) = any_arch();
    let (size, s) = any_mem_size();

    let mut code = BpfCode::new();
    {
        let first = f1.apply(code.mov(source, arch));
        let v: Vec<u8> = (&first).into_bytes();
        let w = f1.expected(alu_expected(10, is_reg, is64)).to_array();
        assert!(v.len() == 8);
        let mut i = 0;
        while i < 8 {
            assert!(v[i] == w[i]);
            i += 1;
        }
        first.push();
    }
    f2.apply(code.store_x(size)).push();

    let w1 = f1.expected(alu_expected(10, is_reg, is64)).to_array();
    let w2 = f2
        .expected(match s {
            0 => ebpf::ST_B_REG,
            1 => ebpf::ST_H_REG,
            2 => ebpf::ST_W_REG,
            _ => ebpf::ST_DW_REG,
        })
        .to_array();
    let got: &[u8] = (&code).into_bytes();
    assert!(got.len() == 16);
    let mut i = 0;
    while i < 8 {
        assert!(got[i] == w1[i]);
        assert!(got[8 + i] == w2[i]);
        i += 1;
    }
    kani::cover!(f1.all_set() && f2.all_set() && is_reg && is64 && s == 3);
}
