// Native driver: runs programs against the real rbpf build. Never a deciding step: used to replay solver
// counterexamples, to dump compiler output (hooks) and to validate the encoders.
// Protocol: one JSON object per input line, one JSON object per output line.
use std::io::{BufRead, Write};
use std::panic;

fn unhex(s: &str) -> Vec<u8> {
    let b = s.as_bytes();
    (0..b.len() / 2).map(|i| u8::from_str_radix(std::str::from_utf8(&b[2 * i..2 * i + 2]).unwrap(), 16).unwrap()).collect()
}
// error text: std::io::Error implements Display; the no_std replacement only Debug (Error { kind, error: "..." }): extract the message
#[cfg(feature = "std")]
pub(crate) fn estr<E: std::fmt::Display>(e: &E) -> String { e.to_string() }
#[cfg(not(feature = "std"))]
pub(crate) fn estr<E: std::fmt::Debug>(e: &E) -> String {
    let d = format!("{:?}", e);
    match (d.find("error: \""), d.rfind('"')) { (Some(i), Some(j)) if j > i + 8 => d[i + 8..j].replace("\\n", "\n").replace("\\t", "\t").replace("\\\"", "\"").replace("\\'", "'").replace("\\\\", "\\"), _ => d }
}
// no_std: the JIT writes into caller-supplied executable memory (page aligned, RWX)
#[cfg(not(feature = "std"))]
pub(crate) fn exec_memory(len: usize) -> &'static mut [u8] {
    unsafe {
        let p = libc::mmap(std::ptr::null_mut(), len, libc::PROT_READ | libc::PROT_WRITE | libc::PROT_EXEC, libc::MAP_PRIVATE | libc::MAP_ANONYMOUS, -1, 0) as *mut u8;
        std::slice::from_raw_parts_mut(p, len)
    }
}
fn hex(b: &[u8]) -> String { b.iter().map(|x| format!("{:02x}", x)).collect() }

// ---------------------------------------------------------------- instrumented helpers
static mut HLOG: Vec<(u32, [u64; 5], u64)> = Vec::new();
std::arch::global_asm!(
    ".globl verif_rsp_probe", "verif_rsp_probe:", "lea rax, [rsp + 8]", "and rax, 15", "ret"
);
extern "C" { fn verif_rsp_probe(a: u64, b: u64, c: u64, d: u64, e: u64) -> u64; }
fn mix(k: u64, a: [u64; 5]) -> u64 {
    (a[0] ^ a[1].rotate_left(7) ^ a[2].rotate_left(13) ^ a[3].rotate_left(29) ^ a[4].rotate_left(43)).wrapping_add(k.wrapping_mul(0x9e3779b97f4a7c15))
}
macro_rules! mk_helper { ($name:ident, $k:expr) => {
    fn $name(a: u64, b: u64, c: u64, d: u64, e: u64) -> u64 {
        unsafe { let v = &mut *std::ptr::addr_of_mut!(HLOG); v.push(($k, [a, b, c, d, e], 0)); }
        mix($k, [a, b, c, d, e])
    } } }
mk_helper!(h0, 0); mk_helper!(h1, 1); mk_helper!(h2, 2); mk_helper!(h3, 3);
fn h_align(a: u64, b: u64, c: u64, d: u64, e: u64) -> u64 {
    // a compiler-generated frame assumes the SysV alignment; an aligned SSE access on a misaligned stack faults.
    #[repr(align(16))] struct A([u8; 32]);
    let mut x = A([0; 32]);
    unsafe { std::ptr::write_volatile(&mut x.0[0], a as u8); }
    let p = &x as *const A as u64;
    unsafe { let v = &mut *std::ptr::addr_of_mut!(HLOG); v.push((99, [a, b, c, d, e], p & 15)); }
    std::hint::black_box(&x);
    a.wrapping_add(b)
}
pub(crate) fn helper_by_kind(k: &str) -> rbpf::ebpf::Helper {
    match k {
        "h0" => h0, "h1" => h1, "h2" => h2, "h3" => h3, "align" => h_align,
        "rsp" => unsafe { std::mem::transmute::<unsafe extern "C" fn(u64, u64, u64, u64, u64) -> u64, rbpf::ebpf::Helper>(verif_rsp_probe) },
        "gather_bytes" => rbpf::helpers::gather_bytes, "memfrob" => rbpf::helpers::memfrob,
        #[cfg(feature = "std")] "sqrti" => rbpf::helpers::sqrti,
        "strcmp" => rbpf::helpers::strcmp,
        _ => h0,
    }
}

// ---------------------------------------------------------------- guarded buffers
struct Buf { map: *mut u8, maplen: usize, ptr: *mut u8, len: usize }
impl Buf {
    // buffer placed so that its END touches a PROT_NONE page (guard = "end") or its START follows one ("start")
    fn new(data: &[u8], guard: &str) -> Buf {
        let pg = 4096usize; let n = data.len(); let inner = ((n + pg - 1) / pg).max(1) * pg;
        let maplen = inner + 2 * pg;
        unsafe {
            let map = libc::mmap(std::ptr::null_mut(), maplen, libc::PROT_NONE, libc::MAP_PRIVATE | libc::MAP_ANONYMOUS, -1, 0) as *mut u8;
            libc::mprotect(map.add(pg) as *mut _, inner, libc::PROT_READ | libc::PROT_WRITE);
            let ptr = if guard == "start" { map.add(pg) } else { map.add(pg + inner - n) };
            std::ptr::copy_nonoverlapping(data.as_ptr(), ptr, n);
            Buf { map, maplen, ptr, len: n }
        }
    }
    fn slice(&self) -> &'static mut [u8] { unsafe { std::slice::from_raw_parts_mut(self.ptr, self.len) } }
}
impl Drop for Buf { fn drop(&mut self) { unsafe { libc::munmap(self.map as *mut _, self.maplen); } } }

fn const_calc(_p: &[u8], _pc: usize, data: &mut dyn std::any::Any) -> u16 { *data.downcast_ref::<u16>().unwrap() }
fn pc_calc(p: &[u8], pc: usize, data: &mut dyn std::any::Any) -> u16 {
    // per-function-entry frame sizes: data = Vec<(pc, size)>, default otherwise
    let v = data.downcast_ref::<Vec<(usize, u16)>>().unwrap(); let _ = p;
    for (k, s) in v { if *k == pc { return *s; } }
    256
}
fn accept_all(_p: &[u8]) -> Result<(), rbpf::lib::Error> { Ok(()) }

fn run(req: &json::JsonValue) -> json::JsonValue {
    let mut prog = unhex(req["prog"].as_str().unwrap_or(""));
    let guard = req["guard"].as_str().unwrap_or("end");
    let membuf = Buf::new(&unhex(req["mem"].as_str().unwrap_or("")), guard);
    let mbbuf = Buf::new(&unhex(req["mbuff"].as_str().unwrap_or("")), guard);
    let exbuf = Buf::new(&unhex(req["extra"].as_str().unwrap_or("")), guard);
    let base = |w: &str| -> u64 { match w { "mem" => membuf.ptr as u64, "mbuff" => mbbuf.ptr as u64, "extra" => exbuf.ptr as u64, _ => 0 } };
    // address patches: lddw at slot gets imm = base(which) + delta
    for p in req["patch"].members() {
        let slot = p[0].as_usize().unwrap(); let mut v = base(p[1].as_str().unwrap()).wrapping_add(p[2].as_i64().unwrap_or(0) as u64);
        if let Some(m) = p[3].as_str() { v = v.wrapping_sub(base(m)); }
        let lo = (v as u32).to_le_bytes(); let hi = ((v >> 32) as u32).to_le_bytes();
        prog[slot * 8 + 4..slot * 8 + 8].copy_from_slice(&lo); prog[slot * 8 + 12..slot * 8 + 16].copy_from_slice(&hi);
    }
    // pointer patches inside the data buffers: [buffer, offset, which, delta] stores base(which)+delta (u64 LE) at buffer[offset..]
    for p in req["bufpatch"].members() {
        let v = base(p[2].as_str().unwrap()).wrapping_add(p[3].as_i64().unwrap_or(0) as u64).to_le_bytes();
        let off = p[1].as_usize().unwrap();
        let tgt = match p[0].as_str().unwrap() { "mem" => membuf.slice(), "mbuff" => mbbuf.slice(), _ => exbuf.slice() };
        if off + 8 <= tgt.len() { tgt[off..off + 8].copy_from_slice(&v); }
    }
    let prog: &'static [u8] = Box::leak(prog.into_boxed_slice());
    let engine = req["engine"].as_str().unwrap_or("interp").to_string();
    let vmk = req["vm"].as_str().unwrap_or("mbuff").to_string();
    unsafe { (&mut *std::ptr::addr_of_mut!(HLOG)).clear(); }
    let mut out = json::object! { "mem_addr": membuf.ptr as u64, "mbuff_addr": mbbuf.ptr as u64, "extra_addr": exbuf.ptr as u64 };
    let custom_verifier = req["verifier"].as_str().unwrap_or("default") == "none";
    let res = panic::catch_unwind(panic::AssertUnwindSafe(|| -> Result<Result<u64, String>, String> {
        macro_rules! setup { ($vm:ident) => {{
            for h in req["helpers"].members() { $vm.register_helper(h[0].as_u32().unwrap(), helper_by_kind(h[1].as_str().unwrap())).map_err(|e| format!("register_helper: {}", crate::estr(&e)))?; }
            for a in req["allowed"].members() { let s = base(a[0].as_str().unwrap()).wrapping_add(a[1].as_i64().unwrap() as u64); $vm.register_allowed_memory(s..s.wrapping_add(a[2].as_u64().unwrap())); }
            if !req["stack_usage"].is_null() {
                if req["stack_usage"].is_array() {
                    let v: Vec<(usize, u16)> = req["stack_usage"].members().map(|x| (x[0].as_usize().unwrap(), x[1].as_u16().unwrap())).collect();
                    $vm.set_stack_usage_calculator(pc_calc, Box::new(v)).map_err(|e| format!("set_stack_usage_calculator: {}", crate::estr(&e)))?;
                } else { $vm.set_stack_usage_calculator(const_calc, Box::new(req["stack_usage"].as_u16().unwrap())).map_err(|e| format!("set_stack_usage_calculator: {}", crate::estr(&e)))?; }
            }
            #[cfg(not(feature = "std"))]
            if engine == "jit" { $vm.set_jit_exec_memory(exec_memory(req["exec_mem"].as_usize().unwrap_or(1 << 24))).map_err(|e| format!("set_jit_exec_memory: {}", estr(&e)))?; }
            if engine == "jit" { $vm.jit_compile().map_err(|e| format!("jit_compile: {}", crate::estr(&e)))?; }
            #[cfg(feature = "cranelift")]
            if engine == "cranelift" { $vm.cranelift_compile().map_err(|e| format!("cranelift_compile: {}", crate::estr(&e)))?; }
        }} }
        macro_rules! load { ($ty:ident $(, $extra:expr)*) => {{
            if custom_verifier { let mut vm = rbpf::$ty::new(None $(, $extra)*).map_err(|e| format!("new: {}", crate::estr(&e)))?; vm.set_verifier(accept_all).map_err(|e| format!("set_verifier: {}", crate::estr(&e)))?; vm.set_program(prog $(, $extra)*).map_err(|e| format!("load: {}", crate::estr(&e)))?; vm }
            else { rbpf::$ty::new(Some(prog) $(, $extra)*).map_err(|e| format!("load: {}", crate::estr(&e)))? }
        }} }
        let r = match vmk.as_str() {
            "mbuff" => { let mut vm = load!(EbpfVmMbuff); setup!(vm);
                match engine.as_str() { "interp" => vm.execute_program(membuf.slice(), mbbuf.slice()),
                    "jit" => unsafe { vm.execute_program_jit(membuf.slice(), mbbuf.slice()) },
                    #[cfg(feature = "cranelift")] "cranelift" => vm.execute_program_cranelift(membuf.slice(), mbbuf.slice()),
                    _ => return Err("engine".into()) } }
            "raw" => { let mut vm = load!(EbpfVmRaw); setup!(vm);
                match engine.as_str() { "interp" => vm.execute_program(membuf.slice()),
                    "jit" => unsafe { vm.execute_program_jit(membuf.slice()) },
                    #[cfg(feature = "cranelift")] "cranelift" => vm.execute_program_cranelift(membuf.slice()),
                    _ => return Err("engine".into()) } }
            "nodata" => { let mut vm = load!(EbpfVmNoData); setup!(vm);
                match engine.as_str() { "interp" => vm.execute_program(),
                    "jit" => unsafe { vm.execute_program_jit() },
                    #[cfg(feature = "cranelift")] "cranelift" => vm.execute_program_cranelift(),
                    _ => return Err("engine".into()) } }
            "fixed" => { let a = req["fixed"][0].as_usize().unwrap(); let b = req["fixed"][1].as_usize().unwrap();
                let mut vm = load!(EbpfVmFixedMbuff, a, b); setup!(vm);
                match engine.as_str() { "interp" => vm.execute_program(membuf.slice()),
                    "jit" => unsafe { vm.execute_program_jit(membuf.slice()) },
                    #[cfg(feature = "cranelift")] "cranelift" => vm.execute_program_cranelift(membuf.slice()),
                    _ => return Err("engine".into()) } }
            _ => return Err("vm kind".into()),
        };
        Ok(r.map_err(|e| crate::estr(&e)))
    }));
    match res {
        Err(p) => { out["status"] = "panic".into();
            out["msg"] = (if let Some(s) = p.downcast_ref::<String>() { s.clone() } else if let Some(s) = p.downcast_ref::<&str>() { s.to_string() } else { "?".into() }).into(); }
        Ok(Err(m)) => { out["status"] = "load_err".into(); out["msg"] = m.into(); }
        Ok(Ok(Err(m))) => { out["status"] = "err".into(); out["msg"] = m.into(); }
        Ok(Ok(Ok(v))) => { out["status"] = "ok".into(); out["value"] = format!("{}", v).into(); }
    }
    out["mem"] = hex(membuf.slice()).into(); out["mbuff"] = hex(mbbuf.slice()).into(); out["extra"] = hex(exbuf.slice()).into();
    let log = unsafe { &*std::ptr::addr_of!(HLOG) };
    out["hlog"] = json::JsonValue::Array(log.iter().map(|(k, a, al)| json::array![*k, a.iter().map(|x| format!("{}", x)).collect::<Vec<_>>(), *al]).collect());
    out
}

// run in a forked child so that a crash of generated code is an observation
pub(crate) fn isolated(req: &json::JsonValue, f: fn(&json::JsonValue) -> json::JsonValue) -> json::JsonValue {
    unsafe {
        let mut fds = [0i32; 2]; libc::pipe(fds.as_mut_ptr());
        let pid = libc::fork();
        if pid == 0 {
            libc::close(fds[0]); libc::alarm(req["timeout_s"].as_u32().unwrap_or(60));
            let s = f(req).dump();
            libc::write(fds[1], s.as_ptr() as *const _, s.len()); libc::close(fds[1]); libc::_exit(0);
        }
        libc::close(fds[1]);
        let mut buf = Vec::new(); let mut tmp = [0u8; 65536];
        loop { let n = libc::read(fds[0], tmp.as_mut_ptr() as *mut _, tmp.len()); if n <= 0 { break; } buf.extend_from_slice(&tmp[..n as usize]); }
        libc::close(fds[0]);
        let mut st = 0i32; libc::waitpid(pid, &mut st, 0);
        if libc::WIFSIGNALED(st) { return json::object! { "status": "signal", "sig": libc::WTERMSIG(st) }; }
        json::parse(std::str::from_utf8(&buf).unwrap_or("{}")).unwrap_or(json::object! { "status": "garbled" })
    }
}

mod ops;

fn main() {
    if std::env::var_os("VERIF_DRIVER_PANIC_MSG").is_none() { panic::set_hook(Box::new(|_| {})); }
    let stdin = std::io::stdin(); let stdout = std::io::stdout();
    for line in stdin.lock().lines() {
        let line = match line { Ok(l) => l, Err(_) => break };
        if line.trim().is_empty() { continue; }
        let req = match json::parse(&line) { Ok(r) => r, Err(e) => { println!("{}", json::object! {"status": "bad_request", "msg": e.to_string()}.dump()); continue; } };
        let resp = match req["op"].as_str().unwrap_or("run") {
            "run" => if req["isolate"].as_bool().unwrap_or(true) { isolated(&req, run) } else { run(&req) },
            other => ops::dispatch(other, &req),
        };
        let mut o = stdout.lock(); let _ = writeln!(o, "{}", resp.dump()); let _ = o.flush();
    }
}
