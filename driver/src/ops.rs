// further operations (compiler dumps through the cfg(rbpf_verif) hooks, assembler/disassembler, API histories)
pub fn dispatch(op: &str, _req: &json::JsonValue) -> json::JsonValue {
    json::object! { "status": "unknown_op", "op": op }
}
