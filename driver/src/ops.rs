// further operations (compiler dumps through the cfg(rbpf_verif) hooks, assembler/disassembler, API histories)
use std::panic;

fn unhex(s: &str) -> Vec<u8> {
    let b = s.as_bytes();
    (0..b.len() / 2).map(|i| u8::from_str_radix(std::str::from_utf8(&b[2 * i..2 * i + 2]).unwrap(), 16).unwrap()).collect()
}

fn pmsg(p: Box<dyn std::any::Any + Send>) -> String {
    if let Some(s) = p.downcast_ref::<String>() { s.clone() } else if let Some(s) = p.downcast_ref::<&str>() { s.to_string() } else { "?".into() }
}

// verifier verdict through the public API: EbpfVm*::new(Some(prog)) and set_program(prog)
fn load(req: &json::JsonValue) -> json::JsonValue {
    let prog = unhex(req["prog"].as_str().unwrap_or(""));
    let mut out = json::object! {};
    let r = panic::catch_unwind(|| rbpf::EbpfVmRaw::new(Some(&prog)).map(|_| ()).map_err(|e| crate::estr(&e)));
    match r { Err(p) => { out["new"] = "panic".into(); out["msg"] = pmsg(p).into(); }
              Ok(Err(m)) => { out["new"] = "err".into(); out["msg"] = m.into(); }
              Ok(Ok(())) => { out["new"] = "ok".into(); } }
    let r = panic::catch_unwind(|| { let mut vm = rbpf::EbpfVmMbuff::new(None).unwrap(); vm.set_program(&prog).map_err(|e| crate::estr(&e)) });
    match r { Err(p) => { out["set_program"] = "panic".into(); out["msg2"] = pmsg(p).into(); }
              Ok(Err(m)) => { out["set_program"] = "err".into(); out["msg2"] = m.into(); }
              Ok(Ok(())) => { out["set_program"] = "ok".into(); } }
    out["status"] = "done".into();
    out
}

// compile with the x86-64 JIT / Cranelift and return what the hooks recorded (no execution)
#[cfg(rbpf_verif)]
fn compile(req: &json::JsonValue) -> json::JsonValue {
    let prog: &'static [u8] = Box::leak(unhex(req["prog"].as_str().unwrap_or("")).into_boxed_slice());
    let vmk = req["vm"].as_str().unwrap_or("mbuff").to_string();
    let engine = req["engine"].as_str().unwrap_or("jit").to_string();
    let novf = req["verifier"].as_str().unwrap_or("default") == "none";
    fn accept_all(_p: &[u8]) -> Result<(), rbpf::lib::Error> { Ok(()) }
    let mut out = json::object! {};
    let mut haddr = json::JsonValue::new_array();
    for h in req["helpers"].members() { let _ = haddr.push(json::array![h[0].as_u32().unwrap(), format!("{}", crate::helper_by_kind(h[1].as_str().unwrap()) as usize)]); }
    out["helper_addrs"] = haddr;
    let r = panic::catch_unwind(panic::AssertUnwindSafe(|| -> Result<(), String> {
        macro_rules! go { ($ty:ident $(, $extra:expr)*) => {{
            let mut vm = if novf { let mut vm = rbpf::$ty::new(None $(, $extra)*).map_err(|e| format!("new: {}", crate::estr(&e)))?; vm.set_verifier(accept_all).map_err(|e| crate::estr(&e))?; vm.set_program(prog $(, $extra)*).map_err(|e| format!("load: {}", crate::estr(&e)))?; vm }
                         else { rbpf::$ty::new(Some(prog) $(, $extra)*).map_err(|e| format!("load: {}", crate::estr(&e)))? };
            for h in req["helpers"].members() { vm.register_helper(h[0].as_u32().unwrap(), crate::helper_by_kind(h[1].as_str().unwrap())).map_err(|e| crate::estr(&e))?; }
            #[cfg(not(feature = "std"))]
            if engine == "jit" { vm.set_jit_exec_memory(crate::exec_memory(req["exec_mem"].as_usize().unwrap_or(1 << 24))).map_err(|e| format!("set_jit_exec_memory: {}", crate::estr(&e)))?; }
            if engine == "jit" { vm.jit_compile().map_err(|e| format!("compile: {}", crate::estr(&e)))?; }
            #[cfg(feature = "cranelift")]
            if engine == "cranelift" { vm.cranelift_compile().map_err(|e| format!("compile: {}", crate::estr(&e)))?; }
            Ok(())
        }} }
        match vmk.as_str() {
            "mbuff" => go!(EbpfVmMbuff), "raw" => go!(EbpfVmRaw), "nodata" => go!(EbpfVmNoData),
            "fixed" => go!(EbpfVmFixedMbuff, req["fixed"][0].as_usize().unwrap_or(0), req["fixed"][1].as_usize().unwrap_or(8)),
            _ => Err("vm kind".into()),
        }
    }));
    match r {
        Err(p) => { out["status"] = "panic".into(); out["msg"] = pmsg(p).into(); }
        Ok(Err(m)) => { out["status"] = "err".into(); out["msg"] = m.into(); }
        Ok(Ok(())) => {
            out["status"] = "ok".into();
            if engine == "jit" {
                if let Some((code, locs, base)) = rbpf::verif::last_jit() {
                    out["code"] = code.iter().map(|x| format!("{:02x}", x)).collect::<String>().into();
                    out["pc_locs"] = json::JsonValue::Array(locs.iter().map(|x| (*x).into()).collect());
                    out["base"] = format!("{}", base).into();
                }
            } else if let Some((text, hs)) = rbpf::verif::last_clif() {
                out["clif"] = text.into();
                out["helper_refs"] = json::JsonValue::Array(hs.iter().map(|(k, r)| json::array![*k, r.as_str()]).collect());
            }
        }
    }
    out
}
#[cfg(not(rbpf_verif))]
fn compile(_req: &json::JsonValue) -> json::JsonValue { json::object! { "status": "no_hooks" } }

// compile (twice if asked) and report only status / repeatability (used in a forked child: a crash is an observation)
fn compile_twice(req: &json::JsonValue) -> json::JsonValue {
    let a = compile(req);
    let mut out = json::object! { "status": a["status"].clone(), "msg": a["msg"].clone(), "code_len": a["code"].as_str().map(|c| c.len() / 2).unwrap_or(0) };
    if req["twice"].as_bool().unwrap_or(false) && a["status"] == "ok" {
        let b = compile(req);
        out["repeatable"] = (a["code"] == b["code"] && a["clif"] == b["clif"] && b["status"] == "ok").into();
    }
    out
}

#[cfg(rbpf_verif)]
fn asm_table(_req: &json::JsonValue) -> json::JsonValue {
    let t = rbpf::assembler::verif_instruction_table();
    json::object! { "status": "ok", "table": json::JsonValue::Array(t.iter().map(|(n, k, o)| json::array![n.as_str(), k.as_str(), *o]).collect()) }
}
#[cfg(not(rbpf_verif))]
fn asm_table(_req: &json::JsonValue) -> json::JsonValue { json::object! { "status": "no_hooks" } }

// call one of rbpf::helpers::* natively
fn call_helper(req: &json::JsonValue) -> json::JsonValue {
    let a: Vec<u64> = req["args"].members().map(|x| x.as_str().map(|s| s.parse::<u64>().unwrap()).unwrap_or_else(|| x.as_u64().unwrap_or(0))).collect();
    let name = req["name"].as_str().unwrap_or("").to_string();
    let r = panic::catch_unwind(|| match name.as_str() {
        #[cfg(feature = "std")] "rand" => rbpf::helpers::rand(a[0], a[1], a[2], a[3], a[4]),
        #[cfg(feature = "std")] "sqrti" => rbpf::helpers::sqrti(a[0], a[1], a[2], a[3], a[4]),
        "gather_bytes" => rbpf::helpers::gather_bytes(a[0], a[1], a[2], a[3], a[4]),
        _ => 0,
    });
    match r { Err(p) => json::object! { "status": "panic", "msg": pmsg(p) }, Ok(v) => json::object! { "status": "ok", "value": format!("{}", v) } }
}

// constructive API histories that exhibit the C10 findings through the public API
fn history(req: &json::JsonValue) -> json::JsonValue {
    let kind = req["kind"].as_str().unwrap_or("").to_string();
    let p1: &'static [u8] = &[0xb7, 0, 0, 0, 1, 0, 0, 0, 0x95, 0, 0, 0, 0, 0, 0, 0];       // mov r0, 1; exit
    let p2: &'static [u8] = &[0xb7, 0, 0, 0, 2, 0, 0, 0, 0x95, 0, 0, 0, 0, 0, 0, 0];       // mov r0, 2; exit
    let bad: &'static [u8] = &[0xb7, 0, 0, 0, 2, 0, 0, 0];                                  // no exit: rejected
    let r = panic::catch_unwind(|| -> (bool, String) {
        match kind.as_str() {
            "stale-jit-code-kept" => {
                let mut vm = rbpf::EbpfVmNoData::new(Some(p1)).unwrap(); vm.jit_compile().unwrap();
                vm.set_program(p2).unwrap();
                let i = vm.execute_program().unwrap();
                match unsafe { vm.execute_program_jit() } { Ok(j) => (j != i, format!("after set_program: interpreter returns {i}, execute_program_jit returns {j}")), Err(e) => (false, format!("execute_program_jit: {} (no stale code)", crate::estr(&e))) }
            }
            #[cfg(feature = "cranelift")]
            "stale-cranelift-code-kept" => {
                let mut vm = rbpf::EbpfVmNoData::new(Some(p1)).unwrap(); vm.cranelift_compile().unwrap();
                vm.set_program(p2).unwrap();
                let i = vm.execute_program().unwrap();
                match vm.execute_program_cranelift() { Ok(j) => (j != i, format!("after set_program: interpreter returns {i}, execute_program_cranelift returns {j}")), Err(e) => (false, format!("execute_program_cranelift: {e} (no stale code)")) }
            }
            "error-leaves-state-changed" => {
                // scenario A: a refused set_program must not drop (or change) the compiled code of the program that stays loaded
                let mut a = (false, String::new());
                {
                    let mut vm = rbpf::EbpfVmNoData::new(Some(p1)).unwrap(); vm.jit_compile().unwrap();
                    let before = unsafe { vm.execute_program_jit() }.map_err(|e| crate::estr(&e));
                    let e = vm.set_program(bad).is_err();
                    let after = unsafe { vm.execute_program_jit() }.map_err(|e| crate::estr(&e));
                    if e && before != after { a = (true, format!("refused set_program changed execute_program_jit from {before:?} to {after:?}")); }
                }
                #[cfg(feature = "cranelift")]
                if !a.0 {
                    let mut vm = rbpf::EbpfVmNoData::new(Some(p1)).unwrap(); vm.cranelift_compile().unwrap();
                    let before = vm.execute_program_cranelift().map_err(|e| crate::estr(&e));
                    let e = vm.set_program(bad).is_err();
                    let after = vm.execute_program_cranelift().map_err(|e| crate::estr(&e));
                    if e && before != after { a = (true, format!("refused set_program changed execute_program_cranelift from {before:?} to {after:?}")); }
                }
                if !a.0 {
                    let mut vm = rbpf::EbpfVmNoData::new(Some(p1)).unwrap();
                    let before = vm.execute_program().map_err(|e| crate::estr(&e));
                    let e = vm.set_program(bad).is_err();
                    let after = vm.execute_program().map_err(|e| crate::estr(&e));
                    if e && before != after { a = (true, format!("refused set_program changed execute_program from {before:?} to {after:?}")); }
                }
                if !a.0 {
                    // the frame sizes computed for the loaded program (custom calculator) must survive a refused load:
                    // main calls f, f calls g; the value is (r10 seen by f) - (r10 seen by g) = frame size of f
                    let nested: &'static [u8] = &[0x85, 0x10, 0, 0, 1, 0, 0, 0, 0x95, 0, 0, 0, 0, 0, 0, 0, 0xbf, 0xa6, 0, 0, 0, 0, 0, 0, 0x85, 0x10, 0, 0, 1, 0, 0, 0, 0x95, 0, 0, 0, 0, 0, 0, 0,
                                                  0xbf, 0x60, 0, 0, 0, 0, 0, 0, 0x1f, 0xa0, 0, 0, 0, 0, 0, 0, 0x95, 0, 0, 0, 0, 0, 0, 0];
                    fn calc32(_p: &[u8], _pc: usize, _d: &mut dyn std::any::Any) -> u16 { 32 }
                    let mut vm = rbpf::EbpfVmNoData::new(Some(nested)).unwrap(); vm.set_stack_usage_calculator(calc32, Box::new(())).unwrap();
                    let before = vm.execute_program().map_err(|e| crate::estr(&e));
                    let e = vm.set_program(bad).is_err();
                    let after = vm.execute_program().map_err(|e| crate::estr(&e));
                    if e && before != after { a = (true, format!("refused set_program changed execute_program of a program with nested local calls and a stack-usage calculator from {before:?} to {after:?}")); }
                }
                if a.0 { return a; }
                // probe reads 8 bytes at offset 100 of the internal buffer: out of bounds while the buffer has 32 bytes
                let probe: &'static [u8] = &[0x79, 0x10, 100, 0, 0, 0, 0, 0, 0x95, 0, 0, 0, 0, 0, 0, 0];
                let mut vm = rbpf::EbpfVmFixedMbuff::new(Some(probe), 8, 24).unwrap();
                let mem: &'static mut [u8] = Box::leak(vec![0u8; 16].into_boxed_slice());
                let mem2: &'static mut [u8] = Box::leak(vec![0u8; 16].into_boxed_slice());
                let before = vm.execute_program(mem).is_ok();
                let e = vm.set_program(bad, 100, 200).is_err();
                let after = vm.execute_program(mem2).is_ok();
                (e && before != after, format!("failing set_program (Err: {e}); probe run before: ok={before}, after: ok={after}"))
            }
            "metadata-buffer-not-fresh" => {
                // run a program on a packet (the wrapper stores the packet addresses at 0x40 / 0x50), load another program with other offsets, read the old slot
                let probe: &'static [u8] = &[0x79, 0x10, 0x40, 0, 0, 0, 0, 0, 0x95, 0, 0, 0, 0, 0, 0, 0];      // ldxdw r0, [r1+0x40]; exit
                let mut vm = rbpf::EbpfVmFixedMbuff::new(Some(p1), 0x40, 0x50).unwrap();
                let mem: &'static mut [u8] = Box::leak(vec![0u8; 16].into_boxed_slice());
                let mem2: &'static mut [u8] = Box::leak(vec![0u8; 16].into_boxed_slice());
                let first = vm.execute_program(mem).map_err(|e| crate::estr(&e));
                vm.set_program(probe, 0x60, 0x70).unwrap();
                let v = vm.execute_program(mem2).map_err(|e| crate::estr(&e));
                (v != Ok(0), format!("first run {first:?}; after set_program with offsets (0x60, 0x70) the new program reads {v:x?} at the old data slot 0x40 (a fresh VM gives 0)"))
            }
            _ => (false, "unsupported".into()),
        }
    });
    match r { Err(p) => json::object! { "status": "panic", "detail": pmsg(p), "reproduced": true },
              Ok((rep, d)) => if d == "unsupported" { json::object! { "status": "unsupported" } } else { json::object! { "status": "ok", "reproduced": rep, "detail": d } } }
}

// a fixed battery of API call sequences on every VM kind; the transcript (one line per call) is compared between builds (C20)
fn api_transcript(_req: &json::JsonValue) -> json::JsonValue {
    let p1: &'static [u8] = &[0xb7, 0, 0, 0, 1, 0, 0, 0, 0x95, 0, 0, 0, 0, 0, 0, 0];       // mov r0, 1; exit
    let p2: &'static [u8] = &[0xb7, 0, 0, 0, 2, 0, 0, 0, 0x95, 0, 0, 0, 0, 0, 0, 0];       // mov r0, 2; exit
    // mov r1..r5, 5..9; call 1; exit   (every helper argument defined)
    let ph: &'static [u8] = &[0xb7, 1, 0, 0, 5, 0, 0, 0, 0xb7, 2, 0, 0, 6, 0, 0, 0, 0xb7, 3, 0, 0, 7, 0, 0, 0, 0xb7, 4, 0, 0, 8, 0, 0, 0, 0xb7, 5, 0, 0, 9, 0, 0, 0,
                              0x85, 0, 0, 0, 1, 0, 0, 0, 0x95, 0, 0, 0, 0, 0, 0, 0];
    let bad: &'static [u8] = &[0xb7, 0, 0, 0, 2, 0, 0, 0];
    fn accept_all(_p: &[u8]) -> Result<(), rbpf::lib::Error> { Ok(()) }
    fn reject_all(_p: &[u8]) -> Result<(), rbpf::lib::Error> { Err(rbpf::lib::Error::new(rbpf::lib::ErrorKind::Other, "rejected by the custom verifier")) }
    let r = panic::catch_unwind(|| -> Vec<String> {
        let mut t: Vec<String> = Vec::new();
        macro_rules! rec { ($name:expr, $e:expr) => { { let r_ = $e; t.push(format!("{}: {}", $name, match r_ { Ok(v) => format!("Ok({:?})", v), Err(e) => format!("Err({})", crate::estr(&e)) })) } } }
        macro_rules! jitc { ($vm:expr) => {{
            #[cfg(not(feature = "std"))] { let _ = $vm.set_jit_exec_memory(crate::exec_memory(1 << 16)); }
            $vm.jit_compile() }} }
        macro_rules! battery { ($tag:literal, $ty:ident, [$($nx:expr),*], [$($ex:expr),*]) => {{
            let mut vm = rbpf::$ty::new(Some(p1) $(, $nx)*).unwrap();
            rec!(concat!($tag, " exec"), vm.execute_program($($ex),*));
            rec!(concat!($tag, " exec_jit before compile"), unsafe { vm.execute_program_jit($($ex),*) });
            rec!(concat!($tag, " jit_compile"), jitc!(vm));
            rec!(concat!($tag, " exec_jit"), unsafe { vm.execute_program_jit($($ex),*) });
            rec!(concat!($tag, " set_program(p2)"), vm.set_program(p2 $(, $nx)*));
            rec!(concat!($tag, " exec_jit after set_program"), unsafe { vm.execute_program_jit($($ex),*) });
            rec!(concat!($tag, " exec after set_program"), vm.execute_program($($ex),*));
            rec!(concat!($tag, " jit_compile again"), jitc!(vm));
            rec!(concat!($tag, " exec_jit again"), unsafe { vm.execute_program_jit($($ex),*) });
            rec!(concat!($tag, " set_program(bad)"), vm.set_program(bad $(, $nx)*));
            rec!(concat!($tag, " exec_jit after refused set_program"), unsafe { vm.execute_program_jit($($ex),*) });
            rec!(concat!($tag, " exec after refused set_program"), vm.execute_program($($ex),*));
            rec!(concat!($tag, " register_helper"), vm.register_helper(1, crate::helper_by_kind("h1")));
            rec!(concat!($tag, " set_program(helper user)"), vm.set_program(ph $(, $nx)*));
            rec!(concat!($tag, " exec helper"), vm.execute_program($($ex),*));
            rec!(concat!($tag, " jit_compile helper"), jitc!(vm));
            rec!(concat!($tag, " exec_jit helper"), unsafe { vm.execute_program_jit($($ex),*) });
            let mut vm = rbpf::$ty::new(None $(, $nx)*).unwrap();
            rec!(concat!($tag, " exec without program"), vm.execute_program($($ex),*));
            rec!(concat!($tag, " jit_compile without program"), jitc!(vm));
            rec!(concat!($tag, " exec_jit without program"), unsafe { vm.execute_program_jit($($ex),*) });
            rec!(concat!($tag, " set_verifier(reject)"), vm.set_verifier(reject_all));
            rec!(concat!($tag, " set_program under reject"), vm.set_program(p1 $(, $nx)*));
            rec!(concat!($tag, " exec under reject"), vm.execute_program($($ex),*));
            rec!(concat!($tag, " set_verifier(accept)"), vm.set_verifier(accept_all));
            rec!(concat!($tag, " set_program(bad) under accept"), vm.set_program(bad $(, $nx)*));
            rec!(concat!($tag, " set_program(p1) under accept"), vm.set_program(p1 $(, $nx)*));
            rec!(concat!($tag, " set_verifier(reject) with program"), vm.set_verifier(reject_all));
            rec!(concat!($tag, " exec at end"), vm.execute_program($($ex),*));
        }} }
        macro_rules! mb { () => { &mut Box::leak(vec![0u8; 32].into_boxed_slice())[..] } }
        battery!("nodata", EbpfVmNoData, [], []);
        battery!("raw", EbpfVmRaw, [], [mb!()]);
        battery!("mbuff", EbpfVmMbuff, [], [mb!(), mb!()]);
        battery!("fixed", EbpfVmFixedMbuff, [0, 8], [mb!()]);
        t
    });
    match r { Err(p) => json::object! { "status": "panic", "msg": pmsg(p) },
              Ok(t) => json::object! { "status": "ok", "transcript": json::JsonValue::Array(t.into_iter().map(|x| x.into()).collect()) } }
}

// EbpfVmFixedMbuff: configure (new with `old` offsets, optionally set_program with `new` offsets), then read back through a probe program
// what the program finds at the two configured offsets of the buffer r1 points to (C09 configuration invariant replay)
fn fixed_reload(req: &json::JsonValue) -> json::JsonValue {
    let old = (req["old"][0].as_usize().unwrap_or(0), req["old"][1].as_usize().unwrap_or(8));
    let newo = (req["new"][0].as_usize().unwrap_or(0), req["new"][1].as_usize().unwrap_or(8));
    let reload = req["reload"].as_bool().unwrap_or(true);
    fn probe(off: usize) -> &'static [u8] {      // ldxdw r0, [r1+off]; exit
        let o = (off as i16).to_le_bytes(); Box::leak(vec![0x79, 0x10, o[0], o[1], 0, 0, 0, 0, 0x95, 0, 0, 0, 0, 0, 0, 0].into_boxed_slice())
    }
    let r = panic::catch_unwind(|| -> Vec<String> {
        let mut t = Vec::new();
        let mem: &'static mut [u8] = Box::leak(vec![7u8; 24].into_boxed_slice()); let (mp, ml) = (mem.as_ptr() as u64, mem.len() as u64);
        for (which, off) in [("data", newo.0), ("data_end", newo.1)] {
            let mut vm = if reload { let mut vm = rbpf::EbpfVmFixedMbuff::new(Some(probe(off)), old.0, old.1).unwrap(); t.push(format!("set_program: {:?}", vm.set_program(probe(off), newo.0, newo.1).map_err(|e| crate::estr(&e)))); vm }
                         else { rbpf::EbpfVmFixedMbuff::new(Some(probe(off)), newo.0, newo.1).unwrap() };
            let m2: &'static mut [u8] = unsafe { std::slice::from_raw_parts_mut(mp as *mut u8, ml as usize) };
            let want = if which == "data" { mp } else { mp + ml };
            t.push(format!("{}: {}", which, match vm.execute_program(m2) { Ok(v) => if v == want { "as documented".to_string() } else { format!("Ok({:#x}) but the packet {} is {:#x}", v, which, want) }, Err(e) => format!("Err({})", crate::estr(&e)) }));
        }
        t
    });
    match r { Err(p) => json::object! { "status": "panic", "msg": pmsg(p) },
              Ok(t) => json::object! { "status": "ok", "transcript": json::JsonValue::Array(t.into_iter().map(|x| x.into()).collect()) } }
}

fn assemble(req: &json::JsonValue) -> json::JsonValue {
    let text = req["text"].as_str().unwrap_or("").to_string();
    match panic::catch_unwind(|| rbpf::assembler::assemble(&text)) {
        Err(p) => json::object! { "status": "panic", "msg": pmsg(p) },
        Ok(Err(e)) => json::object! { "status": "err", "msg": e },
        Ok(Ok(b)) => json::object! { "status": "ok", "bytes": b.iter().map(|x| format!("{:02x}", x)).collect::<String>() },
    }
}

fn disassemble(req: &json::JsonValue) -> json::JsonValue {
    let prog = unhex(req["prog"].as_str().unwrap_or(""));
    match panic::catch_unwind(|| rbpf::disassembler::to_insn_vec(&prog)) {
        Err(p) => json::object! { "status": "panic", "msg": pmsg(p) },
        Ok(v) => json::object! { "status": "ok", "insns": json::JsonValue::Array(v.iter().map(|i| json::object! { "opc": i.opc, "name": i.name.as_str(), "desc": i.desc.as_str(), "dst": i.dst, "src": i.src, "off": i.off as i64, "imm": format!("{}", i.imm) }).collect()) },
    }
}

pub fn dispatch(op: &str, req: &json::JsonValue) -> json::JsonValue {
    match op {
        "assemble" => assemble(req),
        "disassemble" => disassemble(req),
        "history" => history(req),
        "fixed_reload" => crate::isolated(req, fixed_reload),
        "api_transcript" => crate::isolated(req, api_transcript),
        "call_helper" => call_helper(req),
        "load" => load(req),
        "compile" => if req["isolate"].as_bool().unwrap_or(false) { crate::isolated(req, compile_twice) } else { compile(req) },
        "asm_table" => asm_table(req),
        _ => json::object! { "status": "unknown_op", "op": op },
    }
}
