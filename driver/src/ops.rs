// further operations (compiler dumps through the cfg(rbpf_verif) hooks, assembler/disassembler, API histories)
use std::panic;

fn unhex(s: &str) -> Vec<u8> {
    let b = s.as_bytes();
    (0..b.len() / 2).map(|i| u8::from_str_radix(std::str::from_utf8(&b[2 * i..2 * i + 2]).unwrap(), 16).unwrap()).collect()
}

fn pmsg(p: Box<dyn std::any::Any + Send>) -> String {
    if let Some(s) = p.downcast_ref::<String>() { s.clone() } else if let Some(s) = p.downcast_ref::<&str>() { s.to_string() } else { "?".into() }
}

// verifier verdict through the public API: EbpfVm*::new(Some(prog)) and set_program(prog)
fn load(req: &json::JsonValue) -> json::JsonValue {
    let prog = unhex(req["prog"].as_str().unwrap_or(""));
    let mut out = json::object! {};
    let r = panic::catch_unwind(|| rbpf::EbpfVmRaw::new(Some(&prog)).map(|_| ()).map_err(|e| e.to_string()));
    match r { Err(p) => { out["new"] = "panic".into(); out["msg"] = pmsg(p).into(); }
              Ok(Err(m)) => { out["new"] = "err".into(); out["msg"] = m.into(); }
              Ok(Ok(())) => { out["new"] = "ok".into(); } }
    let r = panic::catch_unwind(|| { let mut vm = rbpf::EbpfVmMbuff::new(None).unwrap(); vm.set_program(&prog).map_err(|e| e.to_string()) });
    match r { Err(p) => { out["set_program"] = "panic".into(); out["msg2"] = pmsg(p).into(); }
              Ok(Err(m)) => { out["set_program"] = "err".into(); out["msg2"] = m.into(); }
              Ok(Ok(())) => { out["set_program"] = "ok".into(); } }
    out["status"] = "done".into();
    out
}

pub fn dispatch(op: &str, req: &json::JsonValue) -> json::JsonValue {
    match op {
        "load" => load(req),
        _ => json::object! { "status": "unknown_op", "op": op },
    }
}
