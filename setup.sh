#!/bin/bash
# one-time setup after a fresh restore: build the native driver and pre-dump MIR (offline)
set -e
cd "$(dirname "$0")"
export CARGO_NET_OFFLINE=true
python3-vt - <<'PY'
import sys; sys.path.insert(0, 'engine')
import common
common.load_mir('std')
from driver import Driver
Driver('dev').build()
print('setup ok')
PY
