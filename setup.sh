#!/bin/bash
# one-time setup after a fresh restore: build the native driver, pre-dump MIR, pre-build the Kani harness crate (all offline)
set -e
cd "$(dirname "$0")"
export CARGO_NET_OFFLINE=true
python3-vt - <<'PY'
import sys; sys.path.insert(0, 'engine')
import common
common.load_mir('std')
from driver import Driver
Driver('dev').build(); Driver('release').build()
print('setup ok')
PY
