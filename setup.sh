#!/bin/bash
# one-time setup after a fresh restore: pre-dump the MIR of the three feature configurations, build the native driver in the
# configurations the checks use, pre-build the Kani harness crate (all offline). Every check rebuilds from /repo's working tree
# itself (cargo / the MIR cache are keyed by the sources), so this only warms caches.
set -e
cd "$(dirname "$0")"
export CARGO_NET_OFFLINE=true
python3-vt - <<'PY'
import sys; sys.path.insert(0, 'engine')
import common
for f in ('std', 'nostd', 'cranelift'): common.load_mir(f)
from driver import Driver
Driver('dev').build(); Driver('release').build(); Driver('dev', ('std', 'cranelift')).build(); Driver('dev', ()).build()
try:
    import kani_run
    if hasattr(kani_run, 'prebuild'): kani_run.prebuild()
except Exception as e: print('kani prebuild skipped:', e)
print('setup ok')
PY
